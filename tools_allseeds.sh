#!/bin/bash
# Dev helper: run every quick check at the given seeds; print one line per run.
for seed in "$@"; do
  for id in C01 C02 C03 C04 C05 C06 C07 C08 C09 C10 C11 C12 C13 C14 C15 C16 C17; do
    out=$(VERIF_SEED=$seed ./check $id quick 2>&1); rc=$?
    echo "seed=$seed $id rc=$rc $(echo "$out" | grep -E "^$id quick" | cut -c1-160)"
    if [ $rc -ne 0 ]; then echo "$out" | grep -E "clause=|VIOLATION|HARNESS" | cut -c1-400; fi
  done
done

#!/bin/bash
# Dev helper: thorough tiers (scaled) for the given ids, then a seed sweep.
for id in C02 C07 C08 C09 C10 C11 C12 C13 C14 C15 C16 C17; do
  out=$(VERIF_SCALE=0.3 ./check $id thorough 2>&1); rc=$?
  echo "$id thorough rc=$rc $(echo "$out" | grep -E "^$id thorough" | cut -c1-170)"
  if [ $rc -ne 0 ]; then echo "$out" | grep -E "clause=|VIOLATION|HARNESS|Error" | cut -c1-400 | head -8; fi
done
./tools_allseeds.sh 10 11

"""Dev helper: apply a textual mutation (or a patch file) to /repo, run a check, always revert.

  python tools_mutant.py C12 precondition/sm3.py 'jnp.max(updated' 'jnp.min(updated' [tier]
  python tools_mutant.py C12 --patch seeded/x/patch.diff [tier]
"""
import subprocess, sys, os
pid = sys.argv[1]
if sys.argv[2] == '--patch':
    patch = os.path.abspath(sys.argv[3]); tier = sys.argv[4] if len(sys.argv) > 4 else 'quick'
    subprocess.check_call(['git', '-C', '/repo', 'apply', patch])
else:
    f, old, new = sys.argv[2:5]; tier = sys.argv[5] if len(sys.argv) > 5 else 'quick'
    p = os.path.join('/repo', f); s = open(p).read()
    assert s.count(old) >= 1, 'pattern not found'
    open(p, 'w').write(s.replace(old, new, 1))
try:
    r = subprocess.run(['./check', pid, tier], cwd='/verif', capture_output=True, text=True)
    out = r.stdout.strip().splitlines()
    print('\n'.join(out[-12:])); print('exit', r.returncode)
finally:
    subprocess.check_call(['git', '-C', '/repo', 'checkout', '--', '.'])
    # evidence written under the mutant is not evidence
    subprocess.call(['git', '-C', '/verif', 'checkout', '--', f'evidence/{pid}.json'], stderr=subprocess.DEVNULL)

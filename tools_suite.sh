#!/bin/bash
# Dev helper: run the repository's pinned suite (xdist) and compare with the baseline (714 pass, 3 known always-fail).
cd /repo && /venv/bin/python -m pytest -q -p no:cacheprovider --timeout=900 --continue-on-collection-errors -n ${1:-8} 2>&1 | grep -E "^(FAILED|ERROR)|passed|failed" | sort | uniq

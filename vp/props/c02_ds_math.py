"""C02 — Distributed Shampoo update equals the documented blocked-Shampoo math.

One-step conformance along generated histories against vp/ref/ds_step.py
(float64 NumPy, written from the docs), plus an end-to-end float64 run.
"""
import numpy as np
from hypothesis import strategies as st

from vp import dsh
from vp.core import Result, require
from vp.ref import ds_step as ref

ID = "C02"
LEVEL = "exploration"
ENV = {"x64": True, "devices": 1}
BUDGET = {"quick": 130, "thorough": 2700}
TRACE_CASES = True      # expensive cases: record the case in flight so a hang can be named
RULE = (
    "Hypothesis-built option records over graft type (7), beta1, beta2 (incl. 1), "
    "nesterov, moving-average momentum, weight decay x decoupling, lr "
    "decoupling / dyadic schedule, block size, dimension merging, preconditioner "
    "type, exponent override, start step, statistics / preconditioner intervals, "
    "skip thresholds, Newton/eigh, matrix epsilon, relative/absolute ridge, "
    "gradient-norm clipping, replicated / sharded / pmap over 2 host devices "
    "(last replica observed) x trees of 1-3 leaves with rank "
    "0-4 and dims 1..7 x 3 (thorough 8) histories of 1..6 steps with kinds {dense, "
    "low-rank, sparse, scaled, small integers, zero}. Every step is compared leaf "
    "by leaf (count, statistics, preconditioners, diagonal statistics, both "
    "momenta, update) with a float64 reference step applied to the "
    "implementation's previous state; configurations with matrix_epsilon >= 1e-3 "
    "are also compared end to end. Non-trivial = a step at/after the start step "
    "that uses an accepted non-identity preconditioner on a preconditioned leaf; "
    "distinct = hash of the case.")
ASSUMPTIONS = [
    "x64 on (float32 trees, float64 root): statistics / momenta / update compared "
    "at 5e-5 of the leaf's max-abs (+ a computed float32 cancellation bound); "
    "preconditioners at (n*err + n*1e-6 + 1e-5 + 256*n*p*u*kappa + (n/p) 2^-23 |S|_F/(lmin+d), "
    "the last term for a differently rounded float32 copy of the statistic inside the compiled update) of max-abs where "
    "err is the reported root error and kappa the regularised condition number "
    "(roots with 256*n*p*u*kappa > 1e-3 are counted and skipped); for eigh with a "
    "relative ridge the eigenvalue estimate is not reported, so the preconditioner is "
    "bracketed in the PSD order between the roots for the smallest and largest "
    "admissible ridge (operator monotonicity)",
    "the ridge is reconstructed from the reported max_eigen_value / total_retries",
    "a preconditioner left bit-identical on a refresh step (root rejected or "
    "statistics unchanged) is accepted and counted, not compared",
    "LOBPCG, compression, frequent directions and quantised state are outside "
    "this reference (C01, C10, C09, C11, C05 cover them)",
]

KINDS = ["dense", "dense", "lowrank", "sparse", "ints", "zero", "dense"]


@st.composite
def _opts(draw):
  graft = draw(st.sampled_from(dsh.GRAFTS))
  o = {
      "graft_type": graft,
      "beta1": draw(st.sampled_from([0.0, 0.5, 0.9])),
      "beta2": draw(st.sampled_from([0.5, 0.9, 0.999, 1.0])),
      "nesterov": draw(st.booleans()),
      "moving_average_for_momentum": draw(st.booleans()),
      "weight_decay": draw(st.sampled_from([0.0, 0.0, 0.01, 0.1])),
      "decoupled_weight_decay": draw(st.booleans()),
      "decoupled_learning_rate": draw(st.booleans()),
      "lr": draw(st.sampled_from([0.25, 1.0, 0.0625])),
      "lr_sched": draw(st.sampled_from([None, None, {"every": 2}])),
      "block_size": draw(st.sampled_from([2, 3, 4, 8, 128])),
      "best_effort_shape_interpretation": draw(st.booleans()),
      "merge_small_dims_block_size": draw(st.sampled_from([1, 4, 16, 4096])),
      "precondtioner_type": draw(st.sampled_from(["ALL", "ALL", "INPUT", "OUTPUT"])),
      "exponent_override": draw(st.sampled_from([0, 0, 0, 1, 2, 3, 4])),
      "start_preconditioning_step": draw(st.integers(0, 4)),
      "statistics_compute_steps": draw(st.sampled_from([1, 1, 2, 3])),
      "preconditioning_compute_steps": draw(st.sampled_from([1, 1, 2, 3])),
      "skip_preconditioning_rank_lt": draw(st.sampled_from([1, 1, 2, 3])),
      "skip_preconditioning_dim_size_gt": draw(st.sampled_from([4096, 4096, 8, 3])),
      "eigh": draw(st.booleans()),
      "matrix_epsilon": draw(st.sampled_from([1e-1, 1e-2, 1e-3, 1e-4, 1e-6])),
      "relative_matrix_epsilon": draw(st.booleans()),
      "diagonal_epsilon": draw(st.sampled_from([1e-10, 1e-3])),
      "inverse_failure_threshold": 0.1,
  }
  if graft == "RMSPROP" and draw(st.booleans()):
    o["clip_by_scaled_gradient_norm"] = draw(st.sampled_from([0.5, 2.0]))
  return o


@st.composite
def _case(draw, nhist, modes):
  o = draw(_opts())
  nleaves = draw(st.sampled_from([1, 1, 2, 3]))
  shapes = []
  for _ in range(nleaves):
    r = draw(st.sampled_from([0, 1, 2, 2, 2, 3, 4]))
    hi = 7 if r <= 2 else (4 if r == 3 else 3)
    shapes.append([draw(st.integers(1, hi)) for _ in range(r)])
  hists = []
  for _ in range(nhist):
    t = draw(st.integers(1, 6))
    hists.append(draw(st.lists(st.fixed_dictionaries({
        "kind": st.sampled_from(KINDS), "exp": st.sampled_from([0, 0, 0, -3, -1, 1, 3]),
        "seed": st.integers(0, 2**16)}), min_size=t, max_size=t)))
  return {"mode": draw(st.sampled_from(modes)), "o": o, "shapes": shapes, "histories": hists}


def shards(tier):
  q = tier == "quick"
  return [{"name": "plain", "examples": 12 * (24 if q else 450), "workers": 12, "nhist": 3 if q else 8, "modes": ["plain"]},
          {"name": "sharded", "examples": 3 * (20 if q else 350), "workers": 3, "nhist": 3 if q else 8, "modes": ["sharded"]},
          # pmap over 2 host devices (batch_axis_name set); the LAST replica's update and state are compared
          {"name": "pmap", "examples": 16 if q else 300, "workers": 1, "nhist": 3 if q else 8, "modes": ["pmap"],
           "env": {"devices": 2}}]


def strategy(shard):
  return _case(shard["nhist"], shard["modes"])


def interpret_exception(exc, tb):
  from vp import core
  frame = core.innermost_repo_frame(tb)
  if frame is not None:
    return "update-runs", f"{type(exc).__name__}: {str(exc)[:200]} in {frame}"
  return None


# ------------------------------------------------------------------ state read-out
def full_opts(o):
  f = dict(dsh.DEFAULTS)
  f.update({k: v for k, v in o.items() if k in f})
  return f


def case_env(case):
  return {"devices": 2} if case.get("mode") == "pmap" else {}


def readout(state, mode, names, layouts):
  """Per leaf dict of float64 fields + raw float32 preconditioner arrays."""
  out = {}
  if mode == "pmap":
    import jax
    state = jax.tree.map(lambda x: x[-1], state)     # the last replica's copy
  for n, lay in zip(names, layouts):
    if mode == "sharded":
      ls = state.stats.local_stats[n]
      gs = state.stats.global_stats
      start = int(ls.index_start)
      sizes = [int(s) for s in ls.sizes]
      stats = [np.asarray(gs.statistics[start + j])[:s, :s] for j, s in enumerate(sizes)]
      pres = [np.asarray(gs.preconditioners[start + j])[:s, :s] for j, s in enumerate(sizes)]
      ps = ls
    else:
      ps = state.stats[n]
      stats = [np.asarray(s) for s in ps.statistics]
      pres = [np.asarray(p) for p in ps.preconditioners]
    diag = ps.diagonal_statistics.to_float()
    diag = None if isinstance(diag, list) else np.asarray(diag, np.float64)
    met = ps.training_metrics
    out[n] = {
        "stats": [s.astype(np.float64) for s in stats], "pres_raw": pres,
        "pres": [p.astype(np.float64) for p in pres],
        "diag": diag,
        "momentum": np.asarray(ps.momentum.to_float(), np.float64),
        "diag_momentum": np.asarray(ps.diagonal_momentum.to_float(), np.float64),
        "err": np.asarray(met.inverse_pth_root_errors, np.float64).reshape(-1),
        "mev": np.asarray(met.max_eigen_value, np.float64).reshape(-1),
        "retries": np.asarray(met.total_retries, np.float64).reshape(-1),
    }
  return out


def _cmp(a, b, rtol, clause, what, floor=0.0, bound=None):
  a, b = np.asarray(a, np.float64), np.asarray(b, np.float64)
  require(a.shape == b.shape, clause, f"{what}: shape {a.shape} vs {b.shape}")
  scale = max(float(np.max(np.abs(b), initial=0.0)), floor)
  allowed = rtol * scale + 1e-30 + (bound if bound is not None else 0.0)
  excess = np.abs(a - b) / allowed
  worst = float(np.max(excess, initial=0.0))
  require(np.all(np.isfinite(a)) and worst <= 1.0, clause,
          f"{what}: max |impl - ref| = {float(np.max(np.abs(a - b), initial=0.0)):.4g} is {worst:.3g}x the allowance "
          f"(ref max-abs {scale:.4g}, rtol {rtol:.2g}"
          f"{', cancellation bound up to %.3g' % float(np.max(bound)) if bound is not None and np.size(bound) else ''})",
          ratio=worst)
  return worst


_CACHE = {}


def build(case):
  import contextlib
  import jax
  key = (case["mode"], repr(case["shapes"]), repr(sorted((k, repr(v)) for k, v in case["o"].items())))
  if key in _CACHE:
    return _CACHE[key]
  shapes = [tuple(s) for s in case["shapes"]]
  params = dsh.params_from(shapes)
  if case["mode"] == "sharded":
    from jax.sharding import Mesh
    opt = dsh.make_opt(case["o"], "sharded", 1)
    ctx = Mesh(np.array(jax.devices()[:1]), ("x",))
    with ctx:
      state0 = opt.init(None).init_fn(params)
      upd = jax.jit(opt.update)
  elif case["mode"] == "pmap":
    ndev = 2
    if jax.local_device_count() < ndev:
      raise RuntimeError("pmap mode needs 2 host devices (worker environment)")
    opt = dsh.make_opt(case["o"], "pmap", ndev)
    ctx = contextlib.nullcontext()
    rep = lambda t: jax.tree.map(lambda x: np.stack([np.asarray(x)] * ndev), t)
    prep = rep(params)
    state0 = jax.pmap(opt.init, axis_name="batch", devices=jax.devices()[:ndev])(prep)
    pupd = jax.pmap(opt.update, axis_name="batch", devices=jax.devices()[:ndev])

    def upd(g, st, _):
      u, st = pupd(rep(g), st, prep)
      return jax.tree.map(lambda x: x[-1], u), st
  else:
    opt = dsh.make_opt(case["o"], "plain")
    ctx = contextlib.nullcontext()
    state0 = opt.init(params)
    upd = jax.jit(opt.update)
  _CACHE.clear()
  _CACHE[key] = (params, state0, upd, ctx)
  return _CACHE[key]


def check(case):
  mode = case["mode"]
  o = full_opts(case["o"])
  shapes = [tuple(s) for s in case["shapes"]]
  names = [f"p{i}" for i in range(len(shapes))]
  layouts = [ref.Layout(s, o) for s in shapes]
  if mode == "pmap" and not any(lay.stat_sizes() for lay in layouts):
    # no statistics at all: the pmapped program of such a tree crashes the XLA CPU compiler (segfault inside
    # backend_compile, before any library code runs) - not observable, not this property's subject
    return Result(False, ["mode=pmap", "no-statistics-not-run"])
  params, state0, upd, ctx = build(case)
  pnp = [np.asarray(params[n], np.float64) for n in names]
  thr = o["inverse_failure_threshold"]
  eps = o["matrix_epsilon"]
  max_size = max([d for lay in layouts for d in lay.stat_sizes()] or [0])
  nontrivial = False
  nsteps = kept = compared = skipped_eigh = range_skipped = 0
  worst = 0.0
  e2e_ok = eps >= 1e-3 and mode in ("plain", "pmap")
  with ctx:
    for hspec in case["histories"]:
      hist = dsh.history_np(hspec, shapes)
      state = state0
      prev = readout(state, mode, names, layouts)
      # end-to-end float64 reference state
      e2e = {n: {"stats": [eps * np.eye(d) for d in lay.stat_sizes()],
                 "pres": [np.eye(d) for d in lay.stat_sizes()],
                 "diag": (np.zeros(s) if prev[n]["diag"] is not None else None),
                 "momentum": np.zeros(s), "diag_momentum": np.zeros(s)}
             for n, lay, s in zip(names, layouts, shapes)}
      e2e_hist = e2e_ok and all(sp["exp"] == 0 and sp["kind"] in ("dense", "sparse", "ints") for sp in hspec)
      for c, gs in enumerate(hist):
        gs32 = [np.asarray(g, np.float32) for g in gs]
        updates, state = upd(dsh.to_tree(gs32), state, params)
        count = int(np.asarray(state.count).reshape(-1)[-1])
        require(count == c + 1, "count", f"count {count} after {c + 1} updates")
        new = readout(state, mode, names, layouts)
        lr = dsh.lr_value(case["o"], c)
        nsteps += 1
        srefresh = c % o["statistics_compute_steps"] == 0
        prefresh = c % o["preconditioning_compute_steps"] == 0
        for i, (n, lay) in enumerate(zip(names, layouts)):
          g = gs32[i].astype(np.float64)
          tag = f"{mode} step {c} leaf {shapes[i]} (graft {o['graft_type']}, block {o['block_size']}, type {o['precondtioner_type']})"
          pv, nw = prev[n], new[n]
          # ---- statistics
          rs = ref.new_statistics(lay, pv["stats"], g, o, c)
          require(len(nw["stats"]) == len(rs) == len(lay.stat_sizes()), "statistics-count",
                  f"{tag}: {len(nw['stats'])} statistics, expected {len(lay.stat_sizes())}")
          for k, (a, b) in enumerate(zip(nw["stats"], rs)):
            worst = max(worst, _cmp(a, b, 5e-5, "statistics", f"{tag} statistic {k}",
                                    floor=float(np.max(np.abs(pv["stats"][k]), initial=0.0))))
          # ---- preconditioners
          for k in range(len(rs)):
            same = nw["pres_raw"][k].tobytes() == pv["pres_raw"][k].tobytes()
            if not prefresh:
              require(same, "preconditioner-held", f"{tag} preconditioner {k} changed on a non-refresh step")
              continue
            err = nw["err"][k]
            accepted = bool(np.isfinite(err) and err < thr)
            if same and not accepted:
              kept += 1
              continue
            # an accepted root must be installed (bit-identical bytes are only possible if the statistics
            # did not change; the comparison below covers that too)
            require(accepted, "preconditioner-accepted-only-below-threshold",
                    f"{tag} preconditioner {k} replaced with reported error {err}")
            S = nw["stats"][k]
            nsz = S.shape[0]
            lmax = float(np.linalg.eigvalsh((S + S.T) / 2)[-1])
            extra = 0.0
            bracket_lo = None
            if o["eigh"]:
              if o["relative_matrix_epsilon"]:
                # The eigenvalue estimate that scales the ridge is not reported for eigh and may be any Rayleigh
                # quotient of S (the power iteration stops on an absolute 1e-6 change): d lies in
                # [eps*max(lambda_min,1e-6), eps*max(lambda_max,1e-6)].  x -> (x+d)^(-1/p) is operator monotone in
                # d, so the root is bracketed in the PSD order by the roots at the two ends.
                wS = np.linalg.eigvalsh((S + S.T) / 2)
                d = eps * max(lmax, 1e-6)
                bracket_lo = eps * max(float(max(wS[0], 0.0)), 1e-6)
              else:
                d = eps
            else:
              base = max(float(nw["mev"][k]), 1e-25) if o["relative_matrix_epsilon"] else 1.0
              d = eps * base * (10.0 ** (nw["retries"][k] - 1) if max_size > 1 else 1.0)
            P = ref.inverse_root(S, lay.exponent, d, clamp=bool(o["eigh"]))
            if P is None:
              skipped_eigh += 1      # regularised float32 statistic is not positive definite: no reference
              continue
            lmin = float(np.linalg.eigvalsh((S + S.T) / 2)[0])
            kappa = (lmax + d) / max(lmin + d, 1e-300)
            cond_slack = 256.0 * nsz * lay.exponent * 2.0 ** -53 * kappa      # C01's calibrated rounding slack
            if cond_slack > 1e-3:
              skipped_eigh += 1     # conditioning beyond what float64 can resolve: no meaningful comparison
              continue
            # The statistic is float32 and a compiled update may feed the root routine a differently rounded copy
            # of it than the one it stores (XLA re-evaluates the fused accumulation; observed: the installed root
            # lies between the roots of the stored and of the exactly accumulated statistic). An entrywise
            # perturbation of 1 ulp32 moves (S+dI)^(-1/p) by at most (1/p) |E|_2 (lmin+d)^(-1/p-1), i.e. relative
            # to the root's max entry (>= (lmin+d)^(-1/p) / n) by:
            stat_slack = nsz / lay.exponent * 2.0 ** -23 * float(np.linalg.norm(S)) / max(lmin + d, 1e-300)
            if stat_slack > 0.05:
              skipped_eigh += 1     # float32 rounding of the statistic alone moves the root by > 5%
              continue
            tol = nsz * float(err) + nsz * 1e-6 + 1e-5 + extra + cond_slack + stat_slack
            if bracket_lo is not None:
              Phi = ref.inverse_root(S, lay.exponent, bracket_lo, clamp=True)      # smallest admissible ridge -> largest root
              Pi = nw["pres"][k]
              Pi = (Pi + Pi.T) / 2
              scale = float(np.max(np.abs(Phi if Phi is not None else P)))
              lo_ok = float(np.linalg.eigvalsh(Pi - P)[0]) >= -tol * scale * nsz
              hi_ok = Phi is None or float(np.linalg.eigvalsh(Phi - Pi)[0]) >= -tol * scale * nsz
              require(lo_ok and hi_ok, "preconditioner-is-inverse-root",
                      f"{tag} preconditioner {k} (eigh, relative ridge): not between the inverse roots for ridge "
                      f"{bracket_lo:.3g} and {d:.3g} in the PSD order")
              compared += 1
              continue
            worst = max(worst, _cmp(nw["pres"][k], P, tol, "preconditioner-is-inverse-root",
                                    f"{tag} preconditioner {k} (exponent {lay.exponent}, ridge {d:.3g}, reported error {err:.3g})"))
            compared += 1
          # ---- transform
          used = pv["pres"] if mode == "sharded" else nw["pres"]
          uref, fields, bounds = ref.transform(lay, o, g, pnp[i], pv, used, c, lr)
          u = np.asarray(updates[n], np.float64)
          if bounds["norm_outside_float32_range"]:
            # |preconditioned gradient|^2 under/overflows float32 (extreme exponent override x gradient scale):
            # the grafting norm ratio is then not a floating-point-tolerance question
            range_skipped += 1
          else:
            worst = max(worst, _cmp(u, uref, 5e-5, "update", f"{tag} update (lr {lr})", bound=bounds["update"],
                                    floor=bounds["update_scale"]))
            worst = max(worst, _cmp(nw["momentum"], fields["momentum"], 5e-5, "momentum", f"{tag} momentum",
                                    bound=bounds["momentum"], floor=bounds["scale"]))
          worst = max(worst, _cmp(nw["diag_momentum"], fields["diag_momentum"], 5e-5, "graft-momentum", f"{tag} diagonal momentum",
                                  floor=bounds["scale"]))
          if fields["diag"] is not None:
            worst = max(worst, _cmp(nw["diag"], fields["diag"], 5e-5, "graft-accumulator", f"{tag} diagonal statistics"))
          if (c >= o["start_preconditioning_step"] and not lay.skipped and used and
              any(np.max(np.abs(p - np.eye(p.shape[0]))) > 1e-3 for p in used)):
            nontrivial = True
          # ---- end-to-end reference (own state, own roots)
          if e2e_hist:
            es = e2e[n]
            es["stats"] = ref.new_statistics(lay, es["stats"], g, o, c)
            if prefresh and not lay.skipped:
              newp = []
              for kk, S in enumerate(es["stats"]):
                lm = float(np.linalg.eigvalsh((S + S.T) / 2)[-1])
                d = eps * max(lm, 1e-6 if o["eigh"] else 1e-25) if o["relative_matrix_epsilon"] else eps
                if not o["eigh"] and max_size > 1 and kk < len(nw["retries"]):
                  d = d * 10.0 ** max(float(nw["retries"][kk]) - 1.0, 0.0)   # the routine's documented ridge escalation
                root = ref.inverse_root(S, lay.exponent, d, clamp=bool(o["eigh"]))
                newp.append(root if root is not None else np.eye(S.shape[0]))
              es["pres"] = newp
            ue, ef, _ = ref.transform(lay, o, g, pnp[i], es, es["pres"], c, lr)
            es.update(ef)
            nu, ne = float(np.linalg.norm(u)), float(np.linalg.norm(ue))
            if ne > 1e-12 and all(np.isfinite(e_) and e_ < thr for e_ in nw["err"]):
              require(abs(nu - ne) <= 2e-2 * ne + 1e-9, "end-to-end-norm",
                      f"{tag}: |update| {nu:.6g} vs float64 end-to-end reference {ne:.6g}")
              cs = float(np.dot(u.ravel(), ue.ravel()) / max(nu * ne, 1e-300))
              require(cs >= 1 - 2e-2, "end-to-end-direction", f"{tag}: cos(update, end-to-end reference) = {cs:.6f}")
        prev = new
  classes = [f"mode={mode}", f"graft={o['graft_type']}", f"ptype={o['precondtioner_type']}",
             "eigh" if o["eigh"] else "newton",
             "blocked" if any(len(l.blocks) > 1 for l in layouts) else "unblocked",
             "merged" if any(l.tshape != list(l.shape) for l in layouts) else "unmerged"]
  if kept:
    classes.append("has-kept-preconditioner")
  if e2e_ok:
    classes.append("end-to-end")
  return Result(nontrivial, classes,
                metrics={"tolerance_ratio": worst, "preconditioners_compared": compared,
                         "no_reference_root_skipped": skipped_eigh,
                         "float32_range_skipped": range_skipped}, sub=nsteps)

"""C13 — device-count invariance of the distributed preconditioner computation."""
import numpy as np
from hypothesis import strategies as st

from vp import dsh
from vp.core import Result, require

ID = "C13"
LEVEL = "exploration"
ENV = {"x64": False, "devices": 8}
BUDGET = {"quick": 150, "thorough": 3000}
SHRINK_S = {"quick": 12, "thorough": 120}      # every evaluation compiles several pmaps: keep shrinking short
TRACE_CASES = True      # expensive cases: record the case in flight so a hang can be named
RULE = (
    "Hypothesis-built trees (1-3 leaves, blocked so that the number N of "
    "statistics ranges over 1..~30) x mode {full, int16-quantised, compressed "
    "+-r, frequent directions, eigh} x reuse on/off x histories of 1..4 steps, run "
    "under jax.pmap on D in {1,2,3,4,5,7,8} forced host CPU devices (3 values of D "
    "per case) and, for the sharded variant, under a D-device mesh and with D "
    "declared on a 1-device mesh; plus the exhaustive enumeration of "
    "unbatch(batch(xs, D)) for all N <= 32, D <= 8 and element shapes incl. 1x1, "
    "vectors and scalars. Non-trivial = D >= 2 and N mod D != 0; distinct = hash "
    "of the case.")
ASSUMPTIONS = [
    "forced host-platform CPU devices exercise the index/padding/gather logic, not "
    "a real backend's collectives",
    "replica 0 is compared with the D = 1 run at 1e-6 of the leaf's max-abs (1e-4 "
    "in modes that go through batched eigh, whose rounding depends on the per-device "
    "batch size); replicas of one run must be byte-identical to each other",
]

DS = [2, 3, 4, 5, 7, 8]


@st.composite
def _case(draw, kinds):
  kind = draw(st.sampled_from(kinds))
  if kind == "unbatch":
    return {"kind": kind, "n": draw(st.integers(1, 32)), "d": draw(st.integers(1, 8)),
            "elem": draw(st.sampled_from([[], [1], [3], [1, 1], [2, 2], [3, 1]]))}
  mode = draw(st.sampled_from(["full", "full", "quantized", "compressed", "fd", "eigh"]))
  nleaves = draw(st.sampled_from([1, 2, 2, 3]))
  B = draw(st.sampled_from([2, 3, 4]))
  shapes = []
  def _n(shape):       # number of statistics a leaf contributes (blocks x preconditioned axes)
    n = len(shape)
    for d in shape:
      n *= -(-d // B)
    return n
  for _ in range(nleaves):
    r = draw(st.sampled_from([1, 2, 2, 3]))
    shape = [draw(st.integers(1, 9)) for _ in range(r)]
    # keep the total number of statistics <= ~40: hundreds of statistics make one pmap compile take many minutes
    while sum(_n(s) for s in shapes) + _n(shape) > 40 and max(shape) > 1:
      shape[shape.index(max(shape))] = max(1, max(shape) - B)
    shapes.append(shape)
  o = {"block_size": B, "start_preconditioning_step": draw(st.sampled_from([0, 1])),
       "preconditioning_compute_steps": draw(st.sampled_from([1, 2])),
       "graft_type": draw(st.sampled_from(["SGD", "RMSPROP", "NONE"])),
       "reuse_preconditioner": draw(st.booleans()), "matrix_epsilon": 1e-3,
       "best_effort_shape_interpretation": draw(st.booleans()), "beta1": 0.9,
       "generate_training_metrics": draw(st.booleans())}
  if mode == "quantized":
    o["best_effort_memory_usage_reduction"] = True
  elif mode == "compressed":
    o["compression_rank"] = draw(st.sampled_from([1, -1, 2]))
    o["block_size"] = draw(st.sampled_from([5, 6, 8]))
    shapes.append([draw(st.integers(6, 12)), draw(st.integers(2, 12))])
  elif mode == "fd":
    o.update(compression_rank=draw(st.sampled_from([1, 2])), frequent_directions=True, reuse_preconditioner=True)
    o["statistics_compute_steps"] = o["preconditioning_compute_steps"]
    o["block_size"] = draw(st.sampled_from([5, 6, 8]))
    shapes.append([draw(st.integers(6, 12)), draw(st.integers(2, 12))])
  elif mode == "eigh":
    o["eigh"] = True
  ds = sorted(draw(st.lists(st.sampled_from(DS), min_size=2, max_size=3, unique=True)))
  t = draw(st.integers(1, 4))
  return {"kind": kind, "mode": mode, "shapes": shapes, "o": o, "ds": ds,
          # an overflowing step in the FIRST leaf only (-> some roots rejected, others accepted), and only for the
          # Newton modes: LAPACK eigh / svd on non-finite input can spin forever on CPU (the library itself guards
          # its Sketchy svd for that reason)
          "steps": [{"kind": "dense", "seed": draw(st.integers(0, 2**16)), "exp": 0,
                     "spike": (draw(st.sampled_from([False, False, True])) if mode in ("full", "quantized") else False)}
                    for _ in range(t)]}


def _history(case, shapes):
  hist = dsh.history_np(case["steps"], shapes)
  for spec, gs in zip(case["steps"], hist):
    if spec.get("spike"):
      gs[0] = gs[0] * 1e25
  return hist


def shards(tier):
  q = tier == "quick"
  return [{"name": "pmap", "examples": 10 * (3 if q else 60), "workers": 10, "kinds": ["pmap"]},
          {"name": "sharded", "examples": 4 * (3 if q else 60), "workers": 4, "kinds": ["sharded"]},
          {"name": "unbatch", "exhaustive": True, "workers": 2}]


def enumerate_cases(shard):
  for elem in ([], [1], [3], [1, 1], [2, 2], [3, 1]):
    for d in range(1, 9):
      for n in range(1, 33):
        yield {"kind": "unbatch", "n": n, "d": d, "elem": elem}


def strategy(shard):
  return _case(shard["kinds"])


def interpret_exception(exc, tb):
  from vp import core
  frame = core.innermost_repo_frame(tb)
  if frame is not None:
    return "runs-on-D-devices", f"{type(exc).__name__}: {str(exc)[:200]} in {frame}"
  return None


def check_unbatch(case):
  import jax.numpy as jnp
  from precondition import distributed_shampoo as ds
  n, d, elem = case["n"], case["d"], tuple(case["elem"])
  pad = -n % d
  xs = [np.full(elem, float(i + 1), np.float32) + (np.arange(int(np.prod(elem)) if elem else 1, dtype=np.float32).reshape(elem) / 100.0 if elem else 0.0)
        for i in range(n + pad)]
  b = ds.batch([jnp.asarray(x) for x in xs], d)
  require(b.shape[0] == d and b.shape[1] == (n + pad) // d, "batch-shape", f"N={n} D={d}: {b.shape}")
  out = ds.unbatch(b)
  require(len(out) == n + pad, "unbatch-count", f"N={n} D={d}: {len(out)} elements")
  for i, (x, y) in enumerate(zip(xs, out)):
    y = np.asarray(y)
    require(y.shape == x.shape and np.array_equal(x, y), "unbatch-identity",
            f"N={n} D={d} element shape {elem}: element {i} comes back as shape {y.shape}, first value "
            f"{y.ravel()[:1]} (expected {x.ravel()[:1]})")
  return Result(d >= 2 and n % d != 0, ["unbatch"])


def _nstats(o, shapes):
  import jax.numpy as jnp
  from precondition import distributed_shampoo as ds
  n = 0
  for s in shapes:
    pre = ds.Preconditioner(jnp.zeros(s), o.get("block_size", 128), 4096, o.get("best_effort_shape_interpretation", True))
    n += len(pre.shapes_for_preconditioners())
  return n


def _run_pmap(case, D, hist, params):
  import jax
  import jax.numpy as jnp
  devs = jax.devices()[:D]
  opt = dsh.make_opt(case["o"], "pmap")
  rep = lambda t: jax.tree.map(lambda x: jnp.stack([x] * D), t)
  state = jax.pmap(opt.init, axis_name="batch", devices=devs)(rep(params))
  upd = jax.pmap(opt.update, axis_name="batch", devices=devs)
  outs = []
  for gs in hist:
    u, state = upd(rep(dsh.to_tree(gs)), state, rep(params))
    outs.append(jax.tree.map(np.asarray, u))
  return outs, jax.tree.map(np.asarray, state)


def _denoted(packed, r):
  """The matrices a packed low-rank preconditioner denotes: the root c (I - V V') + V diag(inv) V', the sketch
  V diag(l) V' and the tail. With a (near-)degenerate spectrum at the cut the kept eigenvectors are not unique
  (statistic eps I + g g': four equal eigenvalues), the denoted matrices are."""
  p = np.asarray(packed, np.float64)
  d = p.shape[0]
  v, inv, c = p[:, :r], p[:r, -2], p[0, -1]
  ev, tail, hz = p[d - r:, -1], p[1, -1], bool(p[-1, -2])
  root = np.eye(d) if hz else c * (np.eye(d) - v @ v.T) + (v * inv) @ v.T
  return np.concatenate([root.ravel(), ((v * ev) @ v.T).ravel(), [tail]])


def _cut_is_resolved(stat, rank):
  """False when the statistic's spectrum has no usable gap (< 1% of lambda_max) between the eigenvalues a packed
  root keeps and those it averages. The kept eigenvectors are then an arbitrary basis inside a (near-)degenerate
  eigenspace - e.g. the three eps-eigenvalues of a rank-4 7x7 statistic under a negative rank - and, because kept
  and averaged directions get different values, so is the matrix the packed root denotes. Batches of different
  size legitimately pick different vectors; the updates (compared separately) do not depend on the choice."""
  s = np.asarray(stat, np.float64)
  if s.ndim != 2 or s.shape[0] != s.shape[1] or not np.all(np.isfinite(s)):
    return True
  w = np.linalg.eigvalsh((s + s.T) / 2)
  d, r = len(w), abs(rank)
  if r >= d:
    return True
  lo, hi = (w[d - r - 1], w[d - r]) if rank > 0 else (w[r - 1], w[r])
  return (hi - lo) > 1e-2 * max(float(w[-1]), 1e-300)


def _cmp_tree(a, b, rtol, clause, what, packed_rank=0):
  import jax
  la = jax.tree_util.tree_flatten_with_path(a)[0]
  lb = jax.tree.leaves(b)
  require(len(la) == len(lb), clause, f"{what}: leaf count {len(la)} vs {len(lb)}")
  worst = 0.0
  stats_by_path = {jax.tree_util.keystr(pth): np.asarray(v, np.float64) for (pth, v), _ in zip(la, lb)
                   if packed_rank and ".statistics" in jax.tree_util.keystr(pth)}
  for (path, x), y in zip(la, lb):
    x, y = np.asarray(x), np.asarray(y)
    require(x.shape == y.shape, clause, f"{what} {jax.tree_util.keystr(path)}: shape {x.shape} vs {y.shape}")
    if x.dtype.kind not in "fiu" or x.size == 0:
      continue
    xf, yf = x.astype(np.float64), y.astype(np.float64)
    if "training_metrics" in jax.tree_util.keystr(path):
      continue      # diagnostics (iteration counts) are not part of "updates and state" compared numerically
    if (packed_rank and "preconditioners" in jax.tree_util.keystr(path) and x.ndim == 2
        and x.shape[1] == abs(packed_rank) + 2 < x.shape[0] and np.all(np.isfinite(xf)) and np.all(np.isfinite(yf))):
      xf, yf = _denoted(xf, abs(packed_rank)), _denoted(yf, abs(packed_rank))
      stat = stats_by_path.get(jax.tree_util.keystr(path).replace("preconditioners", "statistics"))
      if stat is not None and not _cut_is_resolved(stat, packed_rank):
        continue      # the kept eigenvectors (and with them the denoted matrix) are not determined by the statistic
    fin = np.isfinite(xf) & np.isfinite(yf)
    require(bool(np.all(np.isfinite(xf) == np.isfinite(yf))), clause,
            f"{what} {jax.tree_util.keystr(path)}: non-finite entries at different positions")
    if not np.any(fin):
      continue
    scale = max(float(np.max(np.abs(xf[fin]))), float(np.max(np.abs(yf[fin]))), 1e-30)
    r = float(np.max(np.abs(xf[fin] - yf[fin]))) / scale
    worst = max(worst, r / rtol)
    require(r <= rtol, clause, f"{what} {jax.tree_util.keystr(path)}: relative difference {r:.3g} (tolerance {rtol:.1g})")
  return worst


def check_pmap(case):
  import jax
  shapes = [tuple(s) for s in case["shapes"]]
  params = dsh.params_from(shapes)
  hist = _history(case, shapes)
  N = _nstats(case["o"], shapes)
  rtol = 1e-4 if case["mode"] in ("compressed", "eigh") else 1e-6
  if case["mode"] == "quantized":
    rtol = 1e-4    # int16 payloads may flip one bucket on a 1-ulp difference of the float value
  try:
    base_u, base_s = _run_pmap(case, 1, hist, params)
  except AssertionError as e:
    if str(e).strip():
      return Result(False, ["rejected"])
    raise
  nontrivial = False
  worst = 0.0
  for D in case["ds"]:
    us, s = _run_pmap(case, D, hist, params)
    for leaf in jax.tree.leaves(s) + [l for u in us for l in jax.tree.leaves(u)]:
      for r in range(1, D):
        require(leaf[r].tobytes() == leaf[0].tobytes(), "replicas-identical",
                f"D={D} N={N} mode {case['mode']}: replica {r} differs from replica 0")
    pick0 = lambda t: jax.tree.map(lambda x: x[0], t)
    for c, (u1, ud) in enumerate(zip(base_u, us)):
      worst = max(worst, _cmp_tree(pick0(ud), pick0(u1), rtol, "updates-equal-single-device",
                                   f"D={D} N={N} (N mod D = {N % D}) mode {case['mode']} step {c} update"))
    worst = max(worst, _cmp_tree(pick0(s), pick0(base_s), rtol, "state-equals-single-device",
                                 f"D={D} N={N} (N mod D = {N % D}) mode {case['mode']} final state",
                                 packed_rank=int(case["o"].get("compression_rank", 0))))
    if N % D != 0:
      nontrivial = True
  return Result(nontrivial, [f"mode={case['mode']}", f"N={min(N, 30) // 5 * 5}+"] + [f"NmodD={N % D}" for D in case["ds"]],
                metrics={"tolerance_ratio": worst}, sub=len(case["ds"]) * len(hist))


def _run_sharded(case, declared, mesh_devices, hist, params):
  import jax
  from jax.sharding import Mesh
  opt = dsh.make_opt(case["o"], "sharded", declared)
  mesh = Mesh(np.array(jax.devices()[:mesh_devices]), ("x",))
  outs = []
  with mesh:
    state = opt.init(None).init_fn(params)
    upd = jax.jit(opt.update)
    for gs in hist:
      u, state = upd(dsh.to_tree(gs), state, params)
      outs.append(jax.tree.map(np.asarray, u))
  return outs, state


def check_sharded(case):
  import jax
  shapes = [tuple(s) for s in case["shapes"]]
  o = dict(case["o"])
  o.pop("best_effort_memory_usage_reduction", None)
  case = dict(case, o=o)
  params = dsh.params_from(shapes)
  hist = _history(case, shapes)
  N = _nstats(o, shapes)
  rtol = 1e-4 if case["mode"] in ("compressed", "eigh") else 1e-6
  try:
    base_u, base_s = _run_sharded(case, 1, 1, hist, params)
  except AssertionError as e:
    if str(e).strip():
      return Result(False, ["rejected"])
    raise
  nontrivial = False
  worst = 0.0
  names = [f"p{i}" for i in range(len(shapes))]
  for D in case["ds"]:
    for mesh_devices in ([1, D] if D in (2, 4, 8) else [1]):
      us, s = _run_sharded(case, D, mesh_devices, hist, params)
      what = f"sharded declared D={D} on a {mesh_devices}-device mesh, N={N}"
      for c, (u1, ud) in enumerate(zip(base_u, us)):
        worst = max(worst, _cmp_tree(ud, u1, rtol, "updates-equal-single-device", f"{what} step {c} update"))
      gb, gd = base_s.stats.global_stats, s.stats.global_stats
      rk = abs(int(o.get("compression_rank", 0)))
      slot_size = {}
      for nm_ in names:
        ls = base_s.stats.local_stats[nm_]
        for j, sz in enumerate(ls.sizes):
          slot_size[int(ls.index_start) + j] = int(sz)
      for nm, a, b in (("statistics", gd.statistics, gb.statistics), ("preconditioners", gd.preconditioners, gb.preconditioners)):
        a, b = np.asarray(a, np.float64)[:N], np.asarray(b, np.float64)[:N]
        if nm == "preconditioners" and rk and a.ndim == 3 and a.shape[2] == rk + 2 and np.all(np.isfinite(a)) and np.all(np.isfinite(b)):
          gstat = np.asarray(gb.statistics, np.float64)[:N]
          srk = int(o.get("compression_rank", 0))
          for i in range(a.shape[0]):
            sz = slot_size.get(i, 0)
            if sz > rk + 2 and not _cut_is_resolved(gstat[i][:sz, :sz], srk):
              a[i] = b[i]       # kept eigenvectors not determined by the statistic: slot not compared
          # packed slots (statistic larger than rank + 2) are compared through the matrices they denote
          a = np.stack([_denoted(a[i], rk) if slot_size.get(i, 0) > rk + 2 else np.resize(a[i].ravel(), 2 * a.shape[1] ** 2 + 1) for i in range(a.shape[0])])
          b = np.stack([_denoted(b[i], rk) if slot_size.get(i, 0) > rk + 2 else np.resize(b[i].ravel(), 2 * b.shape[1] ** 2 + 1) for i in range(b.shape[0])])
        require(bool(np.all(np.isfinite(a) == np.isfinite(b))), "state-equals-single-device",
                f"{what}: global {nm} have non-finite entries at different positions")
        fin = np.isfinite(a) & np.isfinite(b)
        scale = max(float(np.max(np.abs(b[fin]), initial=0.0)), 1e-30)
        r = float(np.max(np.abs(a[fin] - b[fin]), initial=0.0)) / scale
        require(r <= rtol, "state-equals-single-device", f"{what}: global {nm} of the real slots differ by {r:.3g}")
      for n in names:
        la = jax.tree.leaves(s.stats.local_stats[n]._replace(training_metrics=None)) if hasattr(s.stats.local_stats[n], "_replace") else \
            jax.tree.leaves(s.stats.local_stats[n].replace(training_metrics=None))
        lb = jax.tree.leaves(base_s.stats.local_stats[n].replace(training_metrics=None))
        for x, y in zip(la, lb):
          x, y = np.asarray(x, np.float64), np.asarray(y, np.float64)
          fin = np.isfinite(x) & np.isfinite(y)
          require(bool(np.all(np.isfinite(x) == np.isfinite(y))), "state-equals-single-device",
                  f"{what}: local state of {n} has non-finite entries at different positions")
          scale = max(float(np.max(np.abs(y[fin]), initial=0.0)), 1e-30)
          require(float(np.max(np.abs(x[fin] - y[fin]), initial=0.0)) / scale <= rtol, "state-equals-single-device",
                  f"{what}: local state of {n} differs")
      if N % D != 0:
        nontrivial = True
  return Result(nontrivial, [f"sharded-{case['mode']}"] + [f"NmodD={N % D}" for D in case["ds"]],
                metrics={"tolerance_ratio": worst}, sub=len(case["ds"]) * len(hist))


def check(case):
  if case["kind"] == "unbatch":
    return check_unbatch(case)
  if case["kind"] == "pmap":
    return check_pmap(case)
  return check_sharded(case)

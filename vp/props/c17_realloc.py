"""C17 — Sketchy memory reallocation respects the memory budget.

Generated synthetic in-memory `states` (the function's `states=` argument);
oracle = validity predicate on the returned allocation.
"""
import copy

import numpy as np
from hypothesis import strategies as st

from vp.core import Result, Violation, require

ID = "C17"
LEVEL = "exploration"
ENV = {"x64": False, "devices": 1}
BUDGET = {"quick": 80, "thorough": 1200}
RULES = ["sketch_trace", "tail_rho", "ggt_trace", "sketch_intrinsic_rank",
         "ggt_intrinsic_rank"]
RULE = (
    "Hypothesis-built layer sets: 1..8 (thorough ..24) layers with 1-2 axes, axis "
    "dims from a drawn pool of 1..3 values in 1..40 (so groups are shared), base "
    "rank 1..48 (below / equal / above the dims), per-axis scores from {zero, "
    "small ints, ties, log-uniform 1e-6..1e6, one dominant}, 5 scoring rules with "
    "payloads (eigvals / tail / ema_ggt) built to yield the drawn score, "
    "running_average over 1..3 states, dim given as 'dim' or via eigvecs.shape. "
    "Non-trivial = some equal-dimension group has >= 2 axes whose scores are "
    "non-zero and not all tied, with dim > 1; distinct = hash of the case.")
ASSUMPTIONS = [
    "scores are the non-negative numbers the scoring rule computes from the "
    "payload (NaN scores, e.g. ggt_intrinsic_rank of an all-zero matrix, are "
    "outside the property's domain and not generated)",
    "base rank >= 1 (the function asserts it)",
]


def _score():
  return st.one_of(
      st.just(0.0),
      st.integers(1, 9).map(float),
      st.sampled_from([1.0, 2.5, 1e-6, 1e6, 1e3, 1e-3]),
      st.tuples(st.floats(1.0, 9.999), st.integers(-6, 6)).map(
          lambda t: float(np.float32(t[0] * 10.0 ** t[1]))),
  )


@st.composite
def _case(draw, max_layers):
  pool = draw(st.lists(st.one_of(st.integers(1, 12), st.integers(1, 40)),
                       min_size=1, max_size=3, unique=True))
  base = draw(st.one_of(st.integers(1, 48), st.sampled_from(pool),
                        st.sampled_from(pool).map(lambda d: max(1, d - 1))))
  rule = draw(st.sampled_from(RULES))
  nstates = draw(st.sampled_from([1, 1, 2, 3]))
  avg = draw(st.booleans())
  nlayers = draw(st.integers(1, max_layers))
  layers = []
  for _ in range(nlayers):
    naxes = draw(st.sampled_from([1, 2, 2]))
    axes = []
    for _ in range(naxes):
      dim = draw(st.sampled_from(pool))
      if rule in ("sketch_intrinsic_rank", "ggt_intrinsic_rank"):
        # the score is a function of a small spectrum; draw the spectrum itself
        spec = draw(st.lists(
            st.lists(st.one_of(st.just(0.0), st.floats(0.001, 1000.0)).map(
                lambda v: float(np.float32(v))), min_size=1, max_size=4),
            min_size=nstates, max_size=nstates))
        if rule == "ggt_intrinsic_rank":
          spec = [[max(v, 0.001) for v in s] for s in spec]  # non-zero matrix
        axes.append({"dim": dim, "spec": spec, "use_dim_key": draw(st.booleans())})
      else:
        scores = draw(st.lists(_score(), min_size=nstates, max_size=nstates))
        axes.append({"dim": dim, "scores": scores,
                     "use_dim_key": draw(st.booleans()),
                     "split": draw(st.integers(1, 3))})
    layers.append({"axes": axes})
  return {"base": base, "rule": rule, "avg": avg, "nstates": nstates,
          "layers": layers}


def shards(tier):
  if tier == "quick":
    return [{"name": "small", "examples": 16 * 1100, "workers": 16, "max_layers": 8}]
  return [{"name": "small", "examples": 8 * 12000, "workers": 8, "max_layers": 8},
          {"name": "large", "examples": 8 * 5000, "workers": 8, "max_layers": 24}]


def strategy(shard):
  return _case(shard["max_layers"])


def build_states(case):
  import jax.numpy as jnp
  rule = case["rule"]
  states = []
  for s in range(case["nstates"]):
    sketches = {}
    for li, layer in enumerate(case["layers"]):
      axes = {}
      for ai, ax in enumerate(layer["axes"]):
        dim = ax["dim"]
        payload = {}
        if ax["use_dim_key"]:
          payload["dim"] = dim
        else:
          payload["eigvecs"] = jnp.zeros((dim, min(dim, case["base"])), jnp.float32)
        if "spec" in ax:
          vals = np.array(ax["spec"][s], np.float32)
          if rule == "sketch_intrinsic_rank":
            payload["eigvals"] = jnp.asarray(vals)
          else:
            m = np.zeros((max(dim, len(vals)),) * 2, np.float32)
            m[np.arange(len(vals)), np.arange(len(vals))] = vals
            payload["ema_ggt"] = jnp.asarray(m)
        else:
          sc = np.float32(ax["scores"][s])
          k = ax["split"]
          if rule == "sketch_trace":
            parts = np.full(k, sc / np.float32(k), np.float32)
            payload["eigvals"] = jnp.asarray(parts)
          elif rule == "tail_rho":
            payload["tail"] = jnp.asarray(sc)
          else:  # ggt_trace
            n = max(dim, k)
            m = np.zeros((n, n), np.float32)
            m[np.arange(k), np.arange(k)] = sc / np.float32(k)
            payload["ema_ggt"] = jnp.asarray(m)
        axes[str(ai)] = payload
      sketches[f"L{li}"] = {"kernel": {"axes": axes}}
    states.append({"inner_state": {"0": {"direction": {"1": {"sketches": sketches}}}}})
  return tuple(states)


def _snapshot(states):
  out = []

  def rec(d, path):
    if isinstance(d, dict):
      for k in sorted(d):
        rec(d[k], path + (k,))
    else:
      out.append((path, np.asarray(d).tobytes(), np.asarray(d).shape))
  for i, s in enumerate(states):
    rec(s, (i,))
  return out


def _np_scores(case):
  """float64 scores per axis (for the non-triviality rule only)."""
  res = {}
  used = range(case["nstates"]) if case["avg"] else [case["nstates"] - 1]
  for li, layer in enumerate(case["layers"]):
    for ai, ax in enumerate(layer["axes"]):
      vals = []
      for s in used:
        if "spec" in ax:
          v = np.array(ax["spec"][s], np.float64)
          vals.append(v.sum() / v.max() if v.sum() else 0.0)
        else:
          vals.append(float(ax["scores"][s]))
      res[(li, ai)] = float(np.mean(vals))
  return res


def interpret_exception(exc, tb):
  from vp import core
  frame = core.innermost_repo_frame(tb)
  if frame is not None and frame.startswith("reallocation.py"):
    return "returns-an-allocation", f"{type(exc).__name__}: {str(exc)[:200]} in {frame}"
  return None


def check(case):
  from precondition.tearfree import reallocation
  states = build_states(case)
  before = _snapshot(states)
  base = case["base"]
  res = reallocation.create_redist_dict("", [-1], case["rule"], case["avg"], base, states)
  require(_snapshot(states) == before, "inputs-not-mutated", "states were modified")
  naxes_all = max(len(l["axes"]) for l in case["layers"])
  groups = {}
  for li, layer in enumerate(case["layers"]):
    require(f"L{li}" in res and "kernel" in res[f"L{li}"], "all-layers-present", f"L{li} missing")
    ranks = res[f"L{li}"]["kernel"]
    require(isinstance(ranks, list) and len(ranks) == naxes_all, "axes-list-shape",
            f"L{li}: {ranks!r} (expected {naxes_all} entries)")
    for ai in range(naxes_all):
      r = ranks[ai]
      if ai < len(layer["axes"]):
        dim = layer["axes"][ai]["dim"]
        require(isinstance(r, (int, np.integer)) and not isinstance(r, bool), "integer-rank",
                f"L{li}/{ai}: rank {r!r} of type {type(r).__name__}")
        require(1 <= int(r) <= dim, "rank-within-1..dim",
                f"L{li}/{ai}: rank {r} for dim {dim} (base {base})", rank=int(r), dim=dim)
        groups.setdefault(dim, []).append(((li, ai), int(r)))
      else:
        require(r == 0, "absent-axis-keeps-0", f"L{li}/{ai}: {r!r}")
  for dim, members in groups.items():
    tot = sum(r for _, r in members)
    require(tot <= len(members) * base, "group-budget",
            f"dim {dim}: ranks {[r for _, r in members]} sum {tot} > {len(members)}*{base}",
            over=tot - len(members) * base)
  sc = _np_scores(case)
  nontrivial = False
  for dim, members in groups.items():
    vals = [sc[k] for k, _ in members]
    nz = [v for v in vals if v > 0]
    if dim > 1 and len(nz) >= 2 and len(set(nz)) >= 2:
      nontrivial = True
  classes = [f"rule={case['rule']}", f"avg={case['avg']}",
             "base<mindim" if base < min(groups) else
             ("base>=maxdim" if base >= max(groups) else "base-between"),
             f"ngroups={min(len(groups), 3)}"]
  if any(len(m) >= 3 for m in groups.values()):
    classes.append("group>=3")
  return Result(nontrivial, classes)

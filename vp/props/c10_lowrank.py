"""C10 — low-rank packed preconditioner agrees with the dense matrix it denotes."""
import numpy as np
from hypothesis import strategies as st

from vp.core import Result, require

ID = "C10"
LEVEL = "exploration"
ENV = {"x64": True, "devices": 1}
BUDGET = {"quick": 90, "thorough": 1500}
RULE = (
    "Hypothesis-built cases of three kinds. pack: sizes d in 4..16 (thorough ..40), "
    "rank r with r+2<d, arbitrary float32-representable field values / arbitrary "
    "packed matrices. apply: gradients of rank 1..3 with per-axis dims 2..9, "
    "compression rank +-r (axes with |r|+2<dim are packed, the others dense), "
    "random or orthonormal V, e, c, has_zeros flag per axis. root: PSD matrices "
    "with a drawn spectral gap (factor >= 2) at the cut, both signs of r, padding "
    "0..6, p in 1..8, ridge > 0 relative/absolute. Non-trivial = (apply/root) "
    "padding > 0 or negative rank or gradient rank >= 2 with a packed axis that is "
    "not the first; (pack) d > r+3; distinct = hash of the case.")
ASSUMPTIONS = [
    "x64: float64 inputs; application compared at rtol 1e-12, roots at "
    "(1e-10 + 1e3*u*lambda_max/gap) of the dense matrix's max entry in absolute "
    "mode and 1e-4 in relative mode (ridge scaled by a power-iteration estimate: "
    "lambda_max when it converged, else the value power_iteration itself returns "
    "on the same padded matrix - its absolute exit test can fire on iteration 2)",
    "_low_rank_root is always called with an integer padding_start, as every caller does",
]


@st.composite
def _case(draw, max_d):
  kind = draw(st.sampled_from(["pack", "apply", "apply", "root", "root"]))
  seed = draw(st.integers(0, 2**16))
  if kind == "pack":
    r = draw(st.integers(1, 6))
    d = draw(st.integers(r + 3, max(max_d, r + 3)))
    return {"kind": kind, "d": d, "r": r, "seed": seed,
            "neg": draw(st.booleans()), "has_zeros": draw(st.booleans()),
            "mode": draw(st.sampled_from(["fields", "matrix", "sentinel"]))}
  if kind == "apply":
    rank = draw(st.integers(1, 3))
    dims = [draw(st.integers(2, 9)) for _ in range(rank)]
    r = draw(st.integers(1, 4))
    return {"kind": kind, "dims": dims, "r": r * draw(st.sampled_from([1, -1])), "seed": seed,
            "ortho": draw(st.booleans()),
            "zeros_axes": [draw(st.sampled_from([False, False, False, True])) for _ in range(rank)],
            "block": draw(st.sampled_from([0, 0, 5]))}
  r = draw(st.integers(1, 5))
  n = draw(st.integers(r + 3, max(max_d, r + 3)))
  return {"kind": kind, "n": n, "pad": draw(st.sampled_from([0, 0, 1, 2, 6])),
          "r": r * draw(st.sampled_from([1, -1])), "p": draw(st.integers(1, 8)),
          "rel": draw(st.booleans()), "eps_exp": draw(st.integers(-8, -2)),
          "rank_def": draw(st.sampled_from([0, 0, 1, 2])),
          "gap": draw(st.sampled_from([2.0, 4.0, 100.0])),
          "log_spread": draw(st.integers(0, 5)), "log_scale": draw(st.sampled_from([-3, 0, 0, 3])),
          "seed": seed}


def shards(tier):
  if tier == "quick":
    return [{"name": "mixed", "examples": 16 * 300, "workers": 16, "max_d": 16}]
  return [{"name": "mixed", "examples": 16 * 6000, "workers": 16, "max_d": 40}]


def strategy(shard):
  return _case(shard["max_d"])


def interpret_exception(exc, tb):
  from vp import core
  frame = core.innermost_repo_frame(tb)
  if frame is not None:
    return "no-crash", f"{type(exc).__name__}: {str(exc)[:160]} in {frame}"
  return None


# ------------------------------------------------------------------ pack
def do_pack(case):
  import jax.numpy as jnp
  from precondition import distributed_shampoo as ds
  d, r = case["d"], case["r"]
  rng = np.random.default_rng(case["seed"])
  rs = -r if case["neg"] else r
  f32 = lambda a: np.asarray(a, np.float32).astype(np.float64)
  if case["mode"] == "matrix":
    m = f32(rng.standard_normal((d, r + 2)) * 10.0 ** rng.integers(-3, 4))
    m[-1, -2] = float(case["has_zeros"])
    v, ev, inv, c, t, hz = ds._fd_low_rank_unpack(jnp.asarray(m), rs)  # pylint: disable=protected-access
    back = np.asarray(ds._fd_low_rank_pack(v, ev, inv, c, t, hz, rs))  # pylint: disable=protected-access
    defined = np.zeros((d, r + 2), bool)
    defined[:, :r] = True
    defined[:r, -2] = True
    defined[0, -1] = defined[1, -1] = True
    defined[-r:, -1] = True
    defined[-1, -2] = True
    require(np.array_equal(back[defined], m[defined]), "pack-of-unpack", f"d={d} r={rs}")
    require(not np.any(back[~defined]), "pack-undefined-slots-zero", f"d={d} r={rs}")
    return d > r + 3
  if case["mode"] == "sentinel":
    v = np.full((d, r), 1.0)
    ev, inv, c, t = np.full(r, 2.0), np.full(r, 3.0), 4.0, 5.0
  else:
    v = f32(rng.standard_normal((d, r)))
    ev = f32(np.abs(rng.standard_normal(r)) * 10.0 ** rng.integers(-3, 4))
    inv = f32(np.abs(rng.standard_normal(r)) * 10.0 ** rng.integers(-3, 4))
    c, t = float(f32(rng.random() * 7)), float(f32(rng.random() * 3))
  hz = case["has_zeros"]
  packed = ds._fd_low_rank_pack(jnp.asarray(v), jnp.asarray(ev), jnp.asarray(inv), c, t, hz, rs)  # pylint: disable=protected-access
  require(tuple(packed.shape) == (d, r + 2), "pack-shape", f"{packed.shape}")
  v2, ev2, inv2, c2, t2, hz2 = ds._fd_low_rank_unpack(packed, rs)  # pylint: disable=protected-access
  require(np.array_equal(np.asarray(v2), v), "unpack-eigvecs", f"d={d} r={rs}")
  require(np.array_equal(np.asarray(ev2), ev), "unpack-eigvals", f"d={d} r={rs}: {np.asarray(ev2)} vs {ev}")
  require(np.array_equal(np.asarray(inv2), inv), "unpack-inverted", f"d={d} r={rs}: {np.asarray(inv2)} vs {inv}")
  require(float(c2) == c and float(t2) == t, "unpack-const-tail", f"{float(c2)},{float(t2)} vs {c},{t}")
  require(bool(hz2) == hz, "unpack-has-zeros", f"{bool(hz2)} vs {hz}")
  # the 4-field wrappers used by the dense-statistics compressed root
  p4 = ds._low_rank_pack(jnp.asarray(v), jnp.asarray(inv), c, rs)  # pylint: disable=protected-access
  v4, inv4, c4, hz4 = ds._low_rank_unpack(p4, rs)  # pylint: disable=protected-access
  require(np.array_equal(np.asarray(v4), v) and np.array_equal(np.asarray(inv4), inv)
          and float(c4) == c and not bool(hz4), "low-rank-pack-roundtrip", f"d={d} r={rs}")
  return d > r + 3


# ------------------------------------------------------------------ apply
def do_apply(case):
  import jax.numpy as jnp
  from precondition import distributed_shampoo as ds
  dims, rs = case["dims"], case["r"]
  r = abs(rs)
  rng = np.random.default_rng(case["seed"])
  g = rng.standard_normal(dims)
  pre = ds.Preconditioner(jnp.asarray(g), case["block"], 4096, False,
                          ds.PreconditionerType.ALL, rs)
  # blocks (block size 5 splits dims > 5)
  b = case["block"]
  cells = []
  for d in dims:
    if 0 < b < d:
      n = -(-d // b)
      cells.append([(i * b, min((i + 1) * b, d)) for i in range(n)])
    else:
      cells.append([(0, d)])
  import itertools
  preconds, dense_per_block = [], []
  any_packed_not_first = False
  for combo in itertools.product(*cells):
    dense = []
    for ax, (a, e) in enumerate(combo):
      d = e - a
      if r + 2 < d:
        v = rng.standard_normal((d, r))
        if case["ortho"]:
          v, _ = np.linalg.qr(v)
        ev = np.abs(rng.standard_normal(r)) + 0.1
        c = float(rng.random() + 0.1)
        hz = case["zeros_axes"][ax]
        packed = ds._fd_low_rank_pack(jnp.asarray(v), jnp.zeros(r), jnp.asarray(ev), c, 0.0, hz, r)  # pylint: disable=protected-access
        preconds.append(packed)
        dense.append(np.eye(d) if hz else c * (np.eye(d) - v @ v.T) + (v * ev) @ v.T)
        if ax > 0:
          any_packed_not_first = True
      else:
        m = rng.standard_normal((d, d))
        m = m @ m.T + np.eye(d)
        preconds.append(jnp.asarray(m))
        dense.append(m)
    dense_per_block.append((combo, dense))
  shapes = [list(map(int, s)) for s in pre.shapes_for_preconditioners()]
  require(shapes == [list(p.shape) for p in preconds], "apply-shapes",
          f"{shapes} vs {[list(p.shape) for p in preconds]}")
  out = np.asarray(pre.preconditioned_grad(jnp.asarray(g), preconds))
  want = np.zeros_like(g)
  for combo, dense in dense_per_block:
    sl = tuple(slice(a, e) for a, e in combo)
    blk = g[sl]
    for ax, m in enumerate(dense):
      blk = np.moveaxis(np.tensordot(blk, m, axes=[[ax], [0]]), -1, ax)
    want[sl] = blk
  tol = 1e-11 * max(float(np.max(np.abs(want))), 1e-300)
  require(out.shape == g.shape and bool(np.all(np.abs(out - want) <= tol)), "apply-equals-dense",
          f"dims {dims} r {rs} block {b}: max diff {np.max(np.abs(out - want)):.3g} (tol {tol:.3g})")
  return rs < 0 or (len(dims) >= 2 and any_packed_not_first)


# ------------------------------------------------------------------ root
_JIT = {}


def _root_fn(nt, rs, rel):
  import jax
  from precondition import distributed_shampoo as ds
  key = (nt, rs, rel)
  if key not in _JIT:
    def f(mat, p, eps, ps):
      return ds._low_rank_root(mat, p, compression_rank=rs, ridge_epsilon=eps,  # pylint: disable=protected-access
                               relative_matrix_epsilon=rel, padding_start=ps)
    _JIT[key] = jax.jit(f)
  return _JIT[key]


def _pi_fn(nt):
  import jax
  from precondition import distributed_shampoo as ds
  key = ("pi", nt)
  if key not in _JIT:
    _JIT[key] = jax.jit(lambda m, ps: ds.power_iteration(m, num_iters=100, error_tolerance=1e-6,
                                                         precision=jax.lax.Precision.HIGHEST, padding_start=ps)[1])
  return _JIT[key]


def do_root(case):
  import jax.numpy as jnp
  from precondition import distributed_shampoo as ds
  n, pad, rs, p = case["n"], case["pad"], case["r"], case["p"]
  r = abs(rs)
  rng = np.random.default_rng(case["seed"])
  q, _ = np.linalg.qr(rng.standard_normal((n, n)))
  # spectrum, descending, with a gap at the cut and a well separated top
  spread = 10.0 ** (-case["log_spread"])
  lam = np.sort(spread ** rng.random(n))[::-1]
  lam[0] = 1.0
  if n > 1:
    lam[1:] = np.minimum(lam[1:], 0.5)
  k0 = case["rank_def"]
  if rs < 0:
    k0 = min(k0, r)            # more zero eigenvalues than kept directions would make the kept set ambiguous
  if k0:
    lam[n - k0:] = 0.0
  eps = 10.0 ** case["eps_exp"]
  # impose the gap on the regularised eigenvalues at the cut index
  cut = r if rs > 0 else n - r     # keep lam[:cut] (top) or lam[cut:] (bottom)
  d_nom = eps                       # ridge relative to lambda_max = 1
  gapf = case["gap"]
  if lam[cut - 1] + d_nom < gapf * (lam[cut] + d_nom):
    target = (lam[cut - 1] + d_nom) / gapf - d_nom
    if target > 0:
      lam[cut:] = np.minimum(lam[cut:] * target / max(lam[cut], 1e-300), target)
    else:
      lam[cut:] = 0.0
      lam[:cut] = np.maximum(lam[:cut], min(1.0, gapf * d_nom))
  lam = np.sort(lam)[::-1]
  scale = 10.0 ** case["log_scale"] if not case["rel"] else 1.0
  a = (q * (lam * scale)) @ q.T
  a = (a + a.T) / 2
  eps_arg = eps if case["rel"] else eps * scale
  nt = n + pad
  mat = np.asarray(ds.pad_square_matrix(jnp.asarray(a), nt))
  packed, metrics = _root_fn(nt, rs, case["rel"])(jnp.asarray(mat), jnp.asarray(p, jnp.int32),
                                                  jnp.asarray(eps_arg), jnp.asarray(n, jnp.int32))
  packed = np.asarray(packed)
  require(packed.shape == (nt, r + 2), "root-shape", f"{packed.shape}")
  require(bool(np.all(np.isfinite(packed))), "root-finite", "non-finite packed root")
  v, inv, c, hz = ds._low_rank_unpack(jnp.asarray(packed), rs)  # pylint: disable=protected-access
  v, inv, c = np.asarray(v), np.asarray(inv), float(c)
  require(not bool(hz), "root-has-zeros-flag", "flag set on a dense-statistics root")
  require(not np.any(v[n:, :]), "root-padding-rows-zero", "eigenvector rows in the padding are not zero")
  vr = v[:n]
  dense = c * (np.eye(n) - vr @ vr.T) + (vr * inv) @ vr.T
  # reference
  w, u = np.linalg.eigh(a)
  lmax = float(w[-1])
  # Relative mode scales the ridge by power_iteration's estimate of lambda_max. Its exit test is an ABSOLUTE change
  # of the Rayleigh quotient <= 1e-6, which also fires on the second iteration when the fixed start vector is
  # nearly orthogonal to the top eigenvector (the quotient then still sits at the bulk eigenvalue). Which ridge the
  # root "denotes" is therefore the estimate's, and the reference is built for both possible outcomes: the converged
  # one (lambda_max) and the estimate the same routine returns when called on the same padded matrix.
  estimates = [max(lmax, 1e-6)] if case["rel"] else [1.0]
  if case["rel"]:
    est = float(_pi_fn(nt)(jnp.asarray(mat), jnp.asarray(n, jnp.int32)))
    if abs(est - lmax) > 1e-5 * lmax:
      estimates.append(max(est, 1e-6))
  order = np.argsort(w)[::-1] if rs > 0 else np.argsort(w)
  keep, rest = order[:r], order[r:]
  uk = u[:, keep]
  wk = np.sort(w)[::-1]
  gap = (wk[cut - 1] - wk[cut])
  best = None
  for est in estimates:
    d = eps_arg * est
    f = (np.maximum(w, 0) + d) ** (-1.0 / p)
    ref = (uk * f[keep]) @ uk.T + np.mean(f[rest]) * (np.eye(n) - uk @ uk.T)
    scale_ref = float(np.max(np.abs(ref)))
    if case["rel"]:
      tol = 1e-4 * scale_ref
    else:
      # eigenvector conditioning (gap at the cut) + conditioning of x -> (x+d)^(-1/p)
      cond_f = lmax / (max(float(w[0]), 0.0) + d)
      tol = (1e-10 + 1e3 * 2.0 ** -53 * (lmax / max(gap, 1e-300) + cond_f)) * scale_ref
    diff = float(np.max(np.abs(dense - ref)))
    if best is None or diff / tol < best[0] / best[1]:
      best = (diff, tol, scale_ref, float(np.mean(f[rest])), est)
  diff, tol, scale_ref, cref, est = best
  require(diff <= tol, "root-equals-reference",
          f"n={n} pad={pad} r={rs} p={p} rel={case['rel']}: max diff {diff:.3g} > tol {tol:.3g} "
          f"(max entry {scale_ref:.3g}, const {c:.6g} vs {cref:.6g}; ridge scale {est:.6g}, lambda_max {lmax:.6g})",
          ratio=diff / tol)
  if len(estimates) > 1 and est != estimates[0]:
    return pad > 0 or rs < 0, diff / tol, True
  return pad > 0 or rs < 0, diff / tol


def check(case):
  k = case["kind"]
  ratio = None
  if k == "pack":
    nt = do_pack(case)
  elif k == "apply":
    nt = do_apply(case)
  else:
    nt, ratio, *early = do_root(case)
  classes = [f"kind={k}"]
  if k == "root" and early:
    classes.append("power-iteration-stopped-early")
  if k == "root":
    classes += ["neg" if case["r"] < 0 else "pos", "padded" if case["pad"] else "unpadded",
                "rel" if case["rel"] else "abs"]
  if k == "apply":
    classes += [f"grank={len(case['dims'])}", "neg" if case["r"] < 0 else "pos"]
  return Result(nt, classes, metrics={"root_tol_ratio": ratio} if ratio is not None else {})

"""C03 — a preconditioner is replaced only by a verified root; failures never leak."""
import itertools

import numpy as np
from hypothesis import strategies as st

from vp import dsh
from vp.core import Result, Violation, require

ID = "C03"
LEVEL = "fault_enumeration"
ENV = {"x64": False, "devices": 1}
BUDGET = {"quick": 110, "thorough": 2400}
TAGS = ["normal", "zero", "nan_all", "nan_one", "pinf", "ninf", "huge", "tiny",
        "rank1", "equal", "scaled"]
PRINCIPAL = ["normal", "zero", "nan_one", "huge", "rank1"]
TRACE_CASES = True      # expensive cases: record the case in flight so a hang can be named
RULE = (
    "A case is one compiled Distributed Shampoo configuration (mode in {replicated "
    "jit, replicated with low-rank packed (compression_rank +-1, +-2) preconditioners, pmap with int16-quantised statistics/preconditioners, sharded under a "
    "mesh}, Newton/eigh, inverse_failure_threshold in {0,1e-6,0.1,1e3}, "
    "matrix_epsilon in {0,1e-12,1e-6,1e-2}, intervals 1..3, graft type, x64 on/off, "
    "tree with unit dims and blocks) plus 6 (thorough 24) fault schedules of up to "
    "8 steps whose per-step tag is drawn from {normal, zero, NaN-all, NaN-one-entry, "
    "+Inf, -Inf, huge 1e13..1e19, tiny 1e-22..1e-13, rank-1, all-equal, scaled "
    "1e-12..1e12}; plus the exhaustive enumeration of all 5^3 (thorough 5^4) "
    "schedules over the 5 principal tags on one small tree per mode. The "
    "invariant is evaluated after every update. Non-trivial = a schedule with a "
    "rejected root followed by an accepted one, or a non-finite gradient at a "
    "refresh step; distinct = (configuration, schedule) hash.")
ASSUMPTIONS = [
    "errors are read from training_metrics.inverse_pth_root_errors of the state "
    "returned by the same update (the figure the gate used)",
    "padding slices of the sharded global array have no error figure; they are "
    "only required to stay finite",
    "'moderate' for the finite-update clause = every gradient so far is zero or "
    "has max-abs within 1e-12..1e12",
]


# ------------------------------------------------------------------ strategies
def _step():
  return st.fixed_dictionaries({
      "tag": st.sampled_from(TAGS + ["normal", "normal", "scaled"]),
      "exp": st.integers(0, 6),
      "seed": st.integers(0, 2**16)})


@st.composite
def _config(draw, modes):
  mode = draw(st.sampled_from(modes))
  nleaves = draw(st.sampled_from([1, 1, 2]))
  shapes = []
  for _ in range(nleaves):
    r = draw(st.sampled_from([1, 2, 2, 3]))
    shapes.append([draw(st.sampled_from([1, 2, 3, 4, 5])) for _ in range(r)])
  o = {
      "block_size": draw(st.sampled_from([2, 3, 128])),
      "beta1": draw(st.sampled_from([0.0, 0.9])),
      "beta2": draw(st.sampled_from([0.9, 1.0, 0.999])),
      "matrix_epsilon": draw(st.sampled_from([0.0, 1e-12, 1e-6, 1e-6, 1e-2])),
      "relative_matrix_epsilon": draw(st.booleans()),
      "inverse_failure_threshold": draw(st.sampled_from([0.0, 1e-6, 0.1, 0.1, 1e3])),
      "start_preconditioning_step": draw(st.sampled_from([0, 1, 2])),
      "preconditioning_compute_steps": draw(st.sampled_from([1, 1, 2, 3])),
      "statistics_compute_steps": draw(st.sampled_from([1, 1, 2])),
      "graft_type": draw(st.sampled_from(["NONE", "SGD", "ADAGRAD", "RMSPROP", "RMSPROP_NORMALIZED", "SQRT_N"])),
      "eigh": draw(st.booleans()),
      "best_effort_shape_interpretation": draw(st.booleans()),
      "reuse_preconditioner": draw(st.sampled_from([False, False, True])),
  }
  if mode == "pmapq":
    o["best_effort_memory_usage_reduction"] = True
  if mode == "compressed":
    # replicated mode with low-rank packed preconditioners (_low_rank_root): statistics larger than |rank| + 2
    o["compression_rank"] = draw(st.sampled_from([1, -1, 2, -2]))
    o["block_size"] = 128
    shapes = [[draw(st.sampled_from([5, 6, 8])), draw(st.sampled_from([1, 3, 6]))]
              for _ in range(draw(st.sampled_from([1, 1, 2])))]
  return {"mode": mode, "shapes": shapes, "o": o, "x64": draw(st.sampled_from([False, False, True]))}


@st.composite
def _case(draw, modes, nsched, x64):
  cfg = draw(_config(modes))
  cfg["x64"] = x64
  scheds = draw(st.lists(st.lists(_step(), min_size=1, max_size=8), min_size=nsched, max_size=nsched))
  cfg["schedules"] = scheds
  return cfg


def shards(tier):
  q = tier == "quick"
  ns = 6 if q else 24
  per = 30 if q else 300
  out = []
  for mode, w in (("plain", 3), ("pmapq", 3), ("sharded", 3), ("compressed", 2)):
    out.append({"name": f"{mode}", "examples": per * w, "workers": w, "modes": [mode], "nsched": ns, "x64": False})
  out.append({"name": "plain-x64", "examples": per * 2, "workers": 2, "modes": ["plain", "sharded"], "nsched": ns,
              "x64": True, "env": {"x64": True}})
  out.append({"name": "exhaustive", "exhaustive": True, "workers": 3, "T": 3 if q else 4})
  return out


def strategy(shard):
  return _case(shard["modes"], shard["nsched"], shard["x64"])


EXH_BASE = {"shapes": [[3, 2], [1]],
            "o": {"block_size": 2, "beta1": 0.0, "beta2": 0.9, "matrix_epsilon": 1e-6,
                  "inverse_failure_threshold": 0.1, "start_preconditioning_step": 1,
                  "preconditioning_compute_steps": 2, "graft_type": "SGD"}}


def enumerate_cases(shard):
  T = shard["T"]
  all_s = list(itertools.product(PRINCIPAL, repeat=T))
  chunk = 25
  for mode in ("plain", "pmapq", "sharded"):
    for i in range(0, len(all_s), chunk):
      o = dict(EXH_BASE["o"])
      if mode == "pmapq":
        o["best_effort_memory_usage_reduction"] = True
      yield {"mode": mode, "shapes": EXH_BASE["shapes"], "o": o, "x64": False,
             "schedules": [[{"tag": t, "exp": 3, "seed": 7 + j} for j, t in enumerate(s)]
                           for s in all_s[i:i + chunk]]}


def case_env(case):
  return {"x64": True} if case.get("x64") else {}


# ------------------------------------------------------------------ gradients
def fault_grad(step, shape, leaf):
  rng = np.random.default_rng(step["seed"] * 31 + leaf)
  tag = step["tag"]
  g = rng.standard_normal(shape).astype(np.float32)
  flat = g.reshape(-1)
  if tag == "zero":
    g[...] = 0
  elif tag == "nan_all":
    g[...] = np.nan
  elif tag == "nan_one":
    flat[rng.integers(0, flat.size)] = np.nan
  elif tag == "pinf":
    flat[rng.integers(0, flat.size)] = np.inf
  elif tag == "ninf":
    flat[rng.integers(0, flat.size)] = -np.inf
  elif tag == "huge":
    g = g * np.float32(10.0 ** (13 + step["exp"]))
  elif tag == "tiny":
    g = g * np.float32(10.0 ** (-13 - step["exp"] * 1.5))
  elif tag == "rank1":
    v = [rng.standard_normal(d) for d in shape]
    t = v[0]
    for w in v[1:]:
      t = np.multiply.outer(t, w)
    g = t.astype(np.float32)
  elif tag == "equal":
    g[...] = np.float32(0.5 + step["exp"])
  elif tag == "scaled":
    g = g * np.float32(10.0 ** ((step["exp"] - 3) * 4))       # 1e-12 .. 1e12
  return np.asarray(g, np.float32).reshape(shape)


def moderate(g):
  if not np.all(np.isfinite(g)):
    return False
  m = float(np.max(np.abs(g), initial=0.0))
  return m == 0.0 or (1e-12 <= m <= 1e12 * 8)    # a unit-normal draw times 1e12


# ------------------------------------------------------------------ state access
def precond_components(state, mode, names):
  """list of (label, [component arrays], error or None)."""
  out = []
  if mode == "sharded":
    gs = state.stats.global_stats
    pre = np.asarray(gs.preconditioners)
    used = 0
    for name in names:
      ls = state.stats.local_stats[name]
      errs = np.asarray(ls.training_metrics.inverse_pth_root_errors).reshape(-1)
      start = int(ls.index_start)
      for j in range(len(ls.sizes)):
        out.append((f"{name}[{j}]", [pre[start + j]], float(errs[j])))
        used = max(used, start + j + 1)
    for j in range(used, pre.shape[0]):
      out.append((f"padding[{j}]", [pre[j]], None))
    return out
  for name in names:
    ps = state.stats[name]
    errs = np.asarray(ps.training_metrics.inverse_pth_root_errors).reshape(-1)
    for j, p in enumerate(ps.preconditioners):
      if hasattr(p, "quantized"):
        comps = [np.asarray(p.quantized), np.asarray(p.diagonal), np.asarray(p.bucket_size)]
      else:
        comps = [np.asarray(p)]
      out.append((f"{name}[{j}]", comps, float(errs[j])))
  return out


_CACHE = {}


def build(case):
  import jax
  import jax.numpy as jnp
  key = (case["mode"], repr(case["shapes"]), repr(sorted(case["o"].items())), case.get("x64"))
  if key in _CACHE:
    return _CACHE[key]
  mode = case["mode"]
  shapes = [tuple(s) for s in case["shapes"]]
  params = dsh.params_from(shapes)
  if mode == "sharded":
    from jax.sharding import Mesh
    opt = dsh.make_opt(case["o"], "sharded", 1)
    mesh = Mesh(np.array(jax.devices()[:1]), ("x",))
    fns = opt.init(None)
    with mesh:
      state0 = fns.init_fn(params)
      upd = jax.jit(opt.update)
    run = (mesh, upd)
  elif mode == "pmapq":
    opt = dsh.make_opt(case["o"], "pmap")
    p1 = jax.tree.map(lambda x: x[None], params)
    state0 = jax.pmap(opt.init, axis_name="batch")(p1)
    run = (None, jax.pmap(opt.update, axis_name="batch"))
  else:
    opt = dsh.make_opt(case["o"], "plain")
    state0 = opt.init(params)
    run = (None, jax.jit(opt.update))
  if len(_CACHE) > 6:
    _CACHE.clear()
  _CACHE[key] = (params, state0, run)
  return _CACHE[key]


def unrep(state, mode):
  import jax
  if mode == "pmapq":
    return jax.tree.map(lambda x: x[0], state)
  return state


def interpret_exception(exc, tb):
  from vp import core
  frame = core.innermost_repo_frame(tb)
  if frame is not None:
    return "update-runs", f"{type(exc).__name__}: {str(exc)[:200]} in {frame}"
  return None


def check(case):
  import contextlib
  import jax
  import jax.numpy as jnp
  mode, o = case["mode"], case["o"]
  shapes = [tuple(s) for s in case["shapes"]]
  names = [f"p{i}" for i in range(len(shapes))]
  params, state0, (mesh, upd) = build(case)
  thr = o["inverse_failure_threshold"]
  interval = o.get("preconditioning_compute_steps", 1)
  ctx = mesh if mesh is not None else contextlib.nullcontext()
  n_nontrivial = 0
  n_steps = 0
  accepted_total = rejected_total = 0
  with ctx:
    pp = jax.tree.map(lambda x: x[None], params) if mode == "pmapq" else params
    for sched in case["schedules"]:
      state = state0
      old = precond_components(unrep(state, mode), mode, names)
      all_moderate = True
      seen_reject = False
      reject_then_accept = False
      nonfinite_at_refresh = False
      for t, step in enumerate(sched):
        gs = [fault_grad(step, s, i) for i, s in enumerate(shapes)]
        all_moderate = all_moderate and all(moderate(g) for g in gs)
        grads = {n: jnp.asarray(g) for n, g in zip(names, gs)}
        if mode == "pmapq":
          grads = jax.tree.map(lambda x: x[None], grads)
        updates, state = upd(grads, state, pp)
        n_steps += 1
        refresh = (t % interval) == 0
        if refresh and not all(np.all(np.isfinite(g)) for g in gs):
          nonfinite_at_refresh = True
        new = precond_components(unrep(state, mode), mode, names)
        require(len(new) == len(old), "preconditioner-count", f"{len(new)} vs {len(old)}")
        for (lab, oc, _), (_, nc, err) in zip(old, new):
          for c in nc:
            require(bool(np.all(np.isfinite(c.astype(np.float64)))), "stored-preconditioner-finite",
                    f"{mode} step {t} tags {[s['tag'] for s in sched[:t + 1]]}: {lab} has non-finite entries "
                    f"(reported error {err}, threshold {thr})")
          changed = any(a.tobytes() != b.tobytes() for a, b in zip(oc, nc))
          if err is None:
            continue
          if changed:
            require(refresh, "changed-only-on-refresh-step",
                    f"{mode} step {t} (interval {interval}): {lab} changed on a non-refresh step")
            require(np.isfinite(err) and err < thr, "replaced-only-by-verified-root",
                    f"{mode} step {t} tags {[s['tag'] for s in sched[:t + 1]]}: {lab} was replaced although the "
                    f"reported error is {err} (threshold {thr})", err=float(err) if np.isfinite(err) else -1.0)
            accepted_total += 1
            if seen_reject:
              reject_then_accept = True
          elif refresh and not (np.isfinite(err) and err < thr):
            rejected_total += 1
            seen_reject = True
        if all_moderate:
          u = unrep(updates, mode)
          for n in names:
            require(bool(np.all(np.isfinite(np.asarray(u[n])))), "update-finite-for-moderate-gradients",
                    f"{mode} step {t} tags {[s['tag'] + str(s['exp']) for s in sched[:t + 1]]} graft {o['graft_type']}: "
                    f"update of {n} {shapes[int(n[1:])]} is not finite")
        old = new
      if reject_then_accept or nonfinite_at_refresh:
        n_nontrivial += 1
  classes = [f"mode={mode}", f"thr={thr}", "eigh" if o.get("eigh") else "newton",
             "x64" if case.get("x64") else "f32"]
  if accepted_total:
    classes.append("has-accept")
  if rejected_total:
    classes.append("has-reject")
  res = Result(n_nontrivial > 0, classes, sub=n_steps)
  res["nontrivial_count"] = n_nontrivial
  return res

"""C12 — SM3 accumulators cover the true second moment."""
import numpy as np
from hypothesis import strategies as st

from vp.core import Result, require

ID = "C12"
LEVEL = "exploration"
ENV = {"x64": True, "devices": 1}
BUDGET = {"quick": 80, "thorough": 1200}
RULE = (
    "Hypothesis-built (shape list of 1-2 leaves, rank 1..4, dims 1..6) x beta2 in "
    "{.5,.9,.999,1} x beta1 in {0,.9} x weight decay x normalize_grads x "
    "diagonal_epsilon x constant/scheduled lr x histories of 1..12 steps with "
    "per-step kinds {dense, sparse, axis-aligned, scaled 10^[-4,4], zero, "
    "repeat}; float64 (x64). Non-trivial = some leaf of rank >= 2 whose "
    "min-accumulator is strictly looser than the exact per-entry sum at some "
    "entry after some step; distinct = hash of the case.")
ASSUMPTIONS = [
    "jax_enable_x64 so accumulators and updates are float64; relative slack 1e-12",
    "for beta1 > 0 the update is only compared on the first step (later steps go "
    "through the int8-quantised momentum, which the property does not constrain)",
]

KINDS = ["dense", "sparse", "axis", "zero", "repeat", "dense"]


@st.composite
def _case(draw, max_t):
  nleaves = draw(st.sampled_from([1, 1, 2]))
  shapes = []
  for _ in range(nleaves):
    rank = draw(st.sampled_from([1, 2, 2, 3, 3, 4]))
    shapes.append([draw(st.integers(1, 6 if rank < 4 else 4)) for _ in range(rank)])
  t = draw(st.integers(1, max_t))
  steps = draw(st.lists(st.fixed_dictionaries({
      "kind": st.sampled_from(KINDS),
      "exp": st.integers(-4, 4),
      "seed": st.integers(0, 2**16)}), min_size=t, max_size=t))
  return {
      "shapes": shapes,
      "beta1": draw(st.sampled_from([0.0, 0.0, 0.9])),
      "beta2": draw(st.sampled_from([0.5, 0.9, 0.999, 1.0, 1.0])),
      "wd": draw(st.sampled_from([0.0, 0.0, 0.01])),
      "normalize": draw(st.booleans()),
      "eps": draw(st.sampled_from([1e-10, 1e-30, 1e-3])),
      "lr": draw(st.sampled_from([1.0, 0.1, 0.015625])),
      "sched": draw(st.booleans()),
      "steps": steps,
  }


def shards(tier):
  if tier == "quick":
    return [{"name": "hist", "examples": 16 * 160, "workers": 16, "max_t": 12}]
  return [{"name": "hist", "examples": 16 * 3500, "workers": 16, "max_t": 16}]


def strategy(shard):
  return _case(shard["max_t"])


def _grad(spec, shape, prev):
  rng = np.random.default_rng(spec["seed"])
  k = spec["kind"]
  g = rng.standard_normal(shape)
  if k == "sparse":
    g = g * (rng.random(shape) < 0.3)
  elif k == "axis":
    mask = np.zeros(shape)
    idx = [slice(None)] * len(shape)
    ax = int(rng.integers(0, len(shape)))
    idx[ax] = int(rng.integers(0, shape[ax]))
    mask[tuple(idx)] = 1.0
    g = g * mask
  elif k == "zero":
    g = np.zeros(shape)
  elif k == "repeat" and prev is not None:
    g = prev.copy()
  return g * 10.0 ** spec["exp"]


def history(case):
  hist = []
  prev = [None] * len(case["shapes"])
  for spec in case["steps"]:
    gs = []
    for li, shape in enumerate(case["shapes"]):
      sub = dict(spec, seed=spec["seed"] * 7 + li)
      g = _grad(sub, tuple(shape), prev[li])
      prev[li] = g
      gs.append(g)
    hist.append(gs)
  return hist


def _ref_sm3_step(acc, g, beta2):
  """SM3-II (arXiv:1901.11150) with decay, float64 NumPy."""
  w = 1.0 - beta2 if beta2 != 1.0 else 1.0
  rank = g.ndim
  mn = None
  for i in range(rank):
    shp = [1] * rank
    shp[i] = g.shape[i]
    a = acc[i].reshape(shp)
    mn = a if mn is None else np.minimum(mn, a)
  nu_prime = beta2 * np.broadcast_to(mn, g.shape) + w * g * g
  new_acc = []
  for i in range(rank):
    axes = tuple(j for j in range(rank) if j != i)
    new_acc.append(nu_prime.max(axis=axes) if axes else nu_prime.copy())
  return nu_prime, new_acc


_CACHE = {}


def _optimizer(case):
  import jax
  import jax.numpy as jnp
  from precondition import sm3
  key = (tuple(map(tuple, case["shapes"])), case["beta1"], case["beta2"], case["wd"],
         case["normalize"], case["eps"], case["lr"], case["sched"])
  if key in _CACHE:
    return _CACHE[key]
  lr = case["lr"]
  lr_arg = (lambda c: lr / (1.0 + c.astype(jnp.float64))) if case["sched"] else lr
  opt = sm3.sm3(lr_arg, beta1=case["beta1"], beta2=case["beta2"],
                diagonal_epsilon=case["eps"], weight_decay=case["wd"],
                normalize_grads=case["normalize"])
  upd = jax.jit(opt.update)
  if len(_CACHE) > 64:
    _CACHE.clear()
  _CACHE[key] = (opt, upd)
  return opt, upd


def check(case):
  import jax.numpy as jnp
  opt, upd = _optimizer(case)
  shapes = [tuple(s) for s in case["shapes"]]
  prng = np.random.default_rng(12345)
  params_np = [prng.standard_normal(s) for s in shapes]
  params = {f"p{i}": jnp.asarray(p) for i, p in enumerate(params_np)}
  state = opt.init(params)
  hist = history(case)
  beta1, beta2, wd, eps = case["beta1"], case["beta2"], case["wd"], case["eps"]
  w2 = 1.0 - beta2 if beta2 != 1.0 else 1.0
  nu = [np.zeros(s) for s in shapes]
  ref_acc = [[np.zeros(d) for d in s] for s in shapes]
  loose = False
  worst_cover = 0.0
  for t, gs in enumerate(hist):
    grads = {f"p{i}": jnp.asarray(g) for i, g in enumerate(gs)}
    prev_state = state
    updates, state = upd(grads, state, params)
    require(int(state.count) == t + 1, "count", f"count {int(state.count)} after {t+1} updates")
    lr = case["lr"] / (1.0 + t) if case["sched"] else case["lr"]
    for i, shape in enumerate(shapes):
      name = f"p{i}"
      g = gs[i]
      if case["normalize"]:
        g = g / (np.linalg.norm(g) + 1e-16)
      nu[i] = beta2 * nu[i] + w2 * g * g
      accs = [np.asarray(a, np.float64) for a in state.stats[name].diagonal_statistics]
      prev = [np.asarray(a, np.float64) for a in prev_state.stats[name].diagonal_statistics]
      rank = len(shape)
      require(len(accs) == rank and all(a.shape == (shape[j],) for j, a in enumerate(accs)),
              "accumulator-shapes", f"{[a.shape for a in accs]} for {shape}")
      require(all(np.all(np.isfinite(a)) for a in accs), "finite", "accumulator not finite")
      # cover: min over the coordinate's accumulators >= exact decayed sum
      mn = None
      for j in range(rank):
        shp = [1] * rank
        shp[j] = shape[j]
        a = accs[j].reshape(shp)
        mn = a if mn is None else np.minimum(mn, a)
      mn = np.broadcast_to(mn, shape)
      slack = mn - nu[i] * (1 - 1e-12)
      scale = max(float(np.max(nu[i])), 1e-300)
      if float(slack.min()) < -1e-300:
        idx = np.unravel_index(np.argmin(slack), shape)
        require(False, "cover", f"step {t} leaf {shape} entry {idx}: min accumulator "
                f"{mn[idx]:.17g} < exact sum {nu[i][idx]:.17g}")
      worst_cover = max(worst_cover, float(-(mn - nu[i]).min() / scale))
      if rank >= 2 and np.any(mn > nu[i] * (1 + 1e-9) + 1e-300):
        loose = True
      # monotone when there is no decay
      if beta2 == 1.0:
        for j in range(rank):
          require(bool(np.all(accs[j] >= prev[j])), "monotone",
                  f"step {t} leaf {shape} accumulator {j} decreased")
      # agreement with the SM3-II recursion of the paper
      nu_prime, ref_acc[i] = _ref_sm3_step(ref_acc[i], g, beta2)
      for j in range(rank):
        tol = 1e-12 * max(float(np.max(np.abs(ref_acc[i][j]))), 1e-300)
        require(bool(np.all(np.abs(accs[j] - ref_acc[i][j]) <= tol)), "sm3-recursion",
                f"step {t} leaf {shape} accumulator {j}: {accs[j]} vs reference {ref_acc[i][j]}")
      # step size never larger than diagonal AdaGrad/RMSProp
      u = np.asarray(updates[name], np.float64)
      require(u.shape == shape and np.all(np.isfinite(u)), "update-shape-finite", f"{u.shape}")
      u_diag = g / np.sqrt(nu[i] + eps)
      coef = 1.0 if beta1 == 0.0 else (1.0 - beta1)
      if beta1 == 0.0 or t == 0:
        pre = u / (-lr) - wd * params_np[i]      # = coef * preconditioned gradient
        bound = coef * np.abs(u_diag) * (1 + 1e-9) + 1e-12 * (np.abs(wd * params_np[i]) + 1e-300)
        require(bool(np.all(np.abs(pre) <= bound)), "step-not-larger-than-diagonal",
                f"step {t} leaf {shape}: max |sm3 step|/|diag step| = "
                f"{np.max(np.abs(pre) / np.maximum(np.abs(u_diag) * coef, 1e-300)):.6g}")
        expect = coef * g / np.sqrt(nu_prime + eps)
        tol = 1e-11 * (np.abs(expect) + np.abs(wd * params_np[i])) + 1e-300
        require(bool(np.all(np.abs(pre - expect) <= tol)), "update-formula",
                f"step {t} leaf {shape}: update differs from -lr*(g/sqrt(nu'+eps)+wd*p)")
        if rank == 1:
          require(bool(np.all(np.abs(pre - coef * u_diag) <= tol)), "rank1-equals-diagonal",
                  f"step {t}: rank-1 update differs from diagonal AdaGrad/RMSProp")
      if rank == 1:
        tol = 1e-12 * max(float(np.max(nu[i])), 1e-300)
        require(bool(np.all(np.abs(accs[0] - nu[i]) <= tol)), "rank1-accumulator-exact",
                f"step {t}: rank-1 accumulator differs from the exact sum")
  classes = [f"beta2={beta2}", f"beta1={beta1}", f"maxrank={max(len(s) for s in shapes)}",
             f"normalize={case['normalize']}", f"T={min(len(hist), 12)//4*4}+"]
  classes += sorted({"kind=" + s["kind"] for s in case["steps"]})
  return Result(loose, classes, metrics={"cover_deficit_rel": worst_cover}, sub=len(hist))

"""C05 — grafting: warm-up uses the graft step, afterwards only its norm is transplanted."""
import numpy as np
from hypothesis import strategies as st

from vp import dsh
from vp.core import Result, require

ID = "C05"
LEVEL = "exploration"
ENV = {"x64": False, "devices": 1}
BUDGET = {"quick": 120, "thorough": 2400}
TRACE_CASES = True      # expensive cases: record the case in flight so a hang can be named
RULE = (
    "Hypothesis-built (graft type: Distributed Shampoo's 6 non-NONE types / "
    "Tearfree SGD, RMSPROP, ADAFACTOR) x preconditioner representation {full, "
    "low-rank compressed +-r, frequent-directions sketch, int16-quantised under "
    "pmap, Tearfree Shampoo, Tearfree Sketchy} x parameter trees (rank 0-4, incl. "
    "leaves excluded from preconditioning by rank/size rules) x start step x "
    "gradient histories (dense, sparse, low-rank, zero, scaled) with momentum and "
    "weight decay off. Direction oracle = twin run with grafting NONE; norm "
    "oracle = float64 closed form of the grafting optimizer. Non-trivial = a "
    "step at/after the start step on a preconditioned leaf whose ungrafted "
    "direction is not parallel to the graft step (cos < 0.999) and whose norms "
    "differ by > 1%; distinct = hash of the case.")
ASSUMPTIONS = [
    "beta1 = 0 / momentum_decay = 0 and weight decay 0, so the returned update is "
    "-lr times the pre-momentum update",
    "statistics and preconditioners do not depend on the grafting type, so the "
    "NONE twin shares them (checked implicitly: the cosine test would fail otherwise)",
    "ADAFACTOR's step is taken from optax.adafactor run on the same history (trusted)",
    "norm/direction tolerances: 2e-5 relative on norms, 1 - cos <= 1e-5 (float32)",
]

DS_GRAFTS = ["SGD", "ADAGRAD", "RMSPROP", "RMSPROP_NORMALIZED", "SQRT_N", "ADAGRAD_NORMALIZED"]


def _steps(draw, max_t):
  t = draw(st.integers(2, max_t))
  return draw(st.lists(st.fixed_dictionaries({
      "kind": st.sampled_from(["dense", "dense", "dense", "sparse", "lowrank", "zero"]),
      "exp": st.sampled_from([0, 0, 0, -2, 2]), "seed": st.integers(0, 2**16)}), min_size=t, max_size=t))


@st.composite
def _ds_case(draw, max_t):
  rep = draw(st.sampled_from(["full", "full", "compressed", "fd", "quantized"]))
  nleaves = draw(st.sampled_from([1, 2, 2, 3]))
  shapes = []
  for _ in range(nleaves):
    r = draw(st.sampled_from([0, 1, 2, 2, 2, 3, 4]))
    hi = 8 if r <= 2 else 4
    shapes.append([draw(st.integers(1 if r != 2 else 2, hi)) for _ in range(r)])
  if rep in ("compressed", "fd") and not any(len(s) >= 2 and max(s) >= 5 for s in shapes):
    shapes.append([draw(st.integers(5, 8)), draw(st.integers(2, 6))])
  o = {"graft_type": draw(st.sampled_from(DS_GRAFTS)),
       "beta2": draw(st.sampled_from([0.9, 0.99, 1.0])),
       "start_preconditioning_step": draw(st.sampled_from([0, 1, 2, 3])),
       "block_size": draw(st.sampled_from([3, 4, 128])),
       "skip_preconditioning_rank_lt": draw(st.sampled_from([1, 1, 2])),
       "skip_preconditioning_dim_size_gt": draw(st.sampled_from([4096, 4096, 6])),
       "best_effort_shape_interpretation": draw(st.booleans()),
       "matrix_epsilon": draw(st.sampled_from([1e-6, 1e-3])),
       "eigh": draw(st.booleans()),
       "lr": draw(st.sampled_from([0.25, 1.0])),
       "decoupled_learning_rate": draw(st.sampled_from([True, True, False]))}
  if rep == "compressed":
    o["compression_rank"] = draw(st.sampled_from([1, 2, -1, -2]))
    o["block_size"] = 128
  elif rep == "fd":
    o.update(compression_rank=draw(st.sampled_from([1, 2])), frequent_directions=True, reuse_preconditioner=True)
    o["block_size"] = 128
  elif rep == "quantized":
    o["best_effort_memory_usage_reduction"] = True
  return {"opt": "ds", "rep": rep, "shapes": shapes, "o": o, "steps": _steps(draw, max_t)}


@st.composite
def _tf_case(draw, max_t):
  so = draw(st.sampled_from(["shampoo", "sketchy"]))
  nleaves = draw(st.sampled_from([1, 2, 2]))
  shapes = []
  for _ in range(nleaves):
    r = draw(st.sampled_from([1, 2, 2, 3]))
    shapes.append([draw(st.sampled_from([1, 2, 3, 4, 6, 8])) for _ in range(r)])
  return {"opt": "tf", "rep": so, "shapes": shapes,
          "o": {"graft": draw(st.sampled_from(["sgd", "rmsprop", "rmsprop", "adafactor"])),
                "decay": draw(st.sampled_from([0.9, 0.999, 1.0])),
                "start": draw(st.sampled_from([0, 1, 2, 3])),
                "skip_rank1": draw(st.booleans()), "skip_gt": draw(st.sampled_from([4096, 4096, 5])),
                "merge_dims": draw(st.sampled_from([2, 2, 16])),
                "block_size": draw(st.sampled_from([2, 4])), "rank": draw(st.sampled_from([1, 2, 8])),
                "lr": draw(st.sampled_from([0.25, 1.0]))},
          "steps": _steps(draw, max_t)}


def shards(tier):
  q = tier == "quick"
  return [{"name": "ds", "examples": 11 * (22 if q else 500), "workers": 11, "fam": "ds", "max_t": 6 if q else 10},
          {"name": "tf", "examples": 5 * (22 if q else 500), "workers": 5, "fam": "tf", "max_t": 6 if q else 10}]


def strategy(shard):
  return _ds_case(shard["max_t"]) if shard["fam"] == "ds" else _tf_case(shard["max_t"])


def interpret_exception(exc, tb):
  from vp import core
  frame = core.innermost_repo_frame(tb)
  if frame is not None:
    if isinstance(exc, ValueError) and "tearfree" in (frame or ""):
      return None
    return "update-runs", f"{type(exc).__name__}: {str(exc)[:200]} in {frame}"
  return None


# ------------------------------------------------------------------ closed-form graft steps
class GraftRef:
  def __init__(self, kind, shapes, beta2=0.999, eps=1e-10):
    self.kind, self.beta2, self.eps = kind, beta2, eps
    self.acc = [np.zeros(s) for s in shapes]

  def step(self, i, g):
    g = np.asarray(g, np.float64)
    k = self.kind
    if k in ("SGD", "sgd"):
      return g
    if k == "SQRT_N":
      return np.sign(g)
    if k.endswith("_NORMALIZED"):
      g = g / (np.linalg.norm(g) + 1e-25)
    if k.startswith("ADAGRAD"):
      self.acc[i] = self.acc[i] + g * g
      return g / (np.sqrt(self.acc[i]) + self.eps)
    if k.startswith("RMSPROP"):
      w2 = self.beta2 if self.beta2 == 1.0 else 1.0 - self.beta2
      self.acc[i] = self.beta2 * self.acc[i] + w2 * g * g
      return g / (np.sqrt(self.acc[i]) + self.eps)
    if k == "rmsprop":     # tearfree: (eps + acc)^(-1/2)
      if self.beta2 == 1.0:
        self.acc[i] = self.acc[i] + g * g
      else:
        self.acc[i] = (1 - self.beta2) * g * g + self.beta2 * self.acc[i]
      return g / np.sqrt(self.acc[i] + self.eps)
    raise ValueError(k)


def _cos(a, b):
  na, nb = np.linalg.norm(a), np.linalg.norm(b)
  if na == 0 or nb == 0:
    return None
  return float(np.dot(a.ravel(), b.ravel()) / (na * nb))


# ------------------------------------------------------------------ runs
def _run_ds(case, graft):
  import jax
  o = dict(case["o"], graft_type=graft, beta1=0.0, weight_decay=0.0, nesterov=True)
  shapes = [tuple(s) for s in case["shapes"]]
  params = dsh.params_from(shapes)
  hist = dsh.history_np(case["steps"], shapes)
  outs = []
  if case["rep"] == "quantized":
    opt = dsh.make_opt(o, "pmap")
    p1 = jax.tree.map(lambda x: x[None], params)
    state = jax.pmap(opt.init, axis_name="batch")(p1)
    upd = jax.pmap(opt.update, axis_name="batch")
    for gs in hist:
      u, state = upd(jax.tree.map(lambda x: x[None], dsh.to_tree(gs)), state, p1)
      outs.append({k: np.asarray(v[0], np.float64) for k, v in u.items()})
  else:
    opt = dsh.make_opt(o, "plain")
    state = opt.init(params)
    upd = jax.jit(opt.update)
    for gs in hist:
      u, state = upd(dsh.to_tree(gs), state, params)
      outs.append({k: np.asarray(v, np.float64) for k, v in u.items()})
  return hist, outs


def _tf_opt(case, graft):
  from precondition.tearfree import grafting, momentum, optimizer, second_order, shampoo, sketchy
  o = case["o"]
  if case["rep"] == "shampoo":
    so = second_order.Options(merge_dims=o["merge_dims"], second_order_type=second_order.SecondOrderType.SHAMPOO,
                              shampoo_options=shampoo.Options(block_size=o["block_size"], second_moment_decay=0.99))
  else:
    so = second_order.Options(merge_dims=o["merge_dims"], second_order_type=second_order.SecondOrderType.SKETCHY,
                              shampoo_options=None,
                              sketchy_options=sketchy.Options(rank=o["rank"], second_moment_decay=0.99))
  decay = o["decay"]
  if graft == "adafactor" and decay == 1.0:
    decay = 0.9
  go = grafting.Options(grafting_type=grafting.GraftingType(graft),
                        second_moment_decay=0.0 if graft in ("sgd", "none") else decay,
                        start_preconditioning_step=o["start"], epsilon=1e-12,
                        skip_preconditioning_any_dim_gt=o["skip_gt"], skip_preconditioning_rank1=o["skip_rank1"],
                        min_dim_size_to_factor=2, multiply_by_parameter_scale=False)
  mo = momentum.Options(momentum_decay=0.0, weight_decay=0.0)
  return optimizer.tearfree(o["lr"], optimizer.TearfreeOptions(go, so, mo)), decay


def _run_tf(case, graft):
  import jax
  shapes = [tuple(s) for s in case["shapes"]]
  params = dsh.params_from(shapes)
  hist = dsh.history_np(case["steps"], shapes)
  opt, _ = _tf_opt(case, graft)
  state = opt.init(params)
  upd = jax.jit(opt.update)
  outs = []
  for gs in hist:
    u, state = upd(dsh.to_tree(gs), state, params)
    outs.append({k: np.asarray(v, np.float64) for k, v in u.items()})
  return hist, outs


def _adafactor_steps(case, hist, shapes):
  import jax
  import optax
  _, decay = _tf_opt(case, "adafactor")
  tx = optax.chain(optax.adafactor(min_dim_size_to_factor=2, decay_rate=decay, multiply_by_parameter_scale=False,
                                   eps=1e-12, clipping_threshold=1.0), optax.scale(-1))
  params = dsh.params_from(shapes)
  state = tx.init(params)
  out = []
  upd = jax.jit(tx.update)
  for gs in hist:
    u, state = upd(dsh.to_tree(gs), state, params)
    out.append([np.asarray(u[f"p{i}"], np.float64) for i in range(len(shapes))])
  return out


def check(case):
  shapes = [tuple(s) for s in case["shapes"]]
  names = [f"p{i}" for i in range(len(shapes))]
  o = case["o"]
  if case["opt"] == "ds":
    graft = o["graft_type"]
    try:
      hist, ug = _run_ds(case, graft)
      _, un = _run_ds(case, "NONE")
    except (ValueError, AssertionError) as e:
      if isinstance(e, AssertionError) and not str(e).strip():
        raise
      return Result(False, ["ds-rejected"])   # documented explicit rejection (e.g. layers too small for compression)
    start = o["start_preconditioning_step"]
    lr = o["lr"]
    skipped = [len(s) < o["skip_preconditioning_rank_lt"] or any(d > o["skip_preconditioning_dim_size_gt"] for d in s)
               for s in shapes]
    ref = GraftRef(graft, shapes, beta2=o["beta2"], eps=1e-10)
    steps_ref = [[ref.step(i, np.asarray(g, np.float32)) for i, g in enumerate(gs)] for gs in hist]
  else:
    graft = o["graft"]
    try:
      hist, ug = _run_tf(case, graft)
      _, un = _run_tf(case, "none")
    except ValueError as e:   # documented rejections (unit dims, > 2 large dims ...)
      return Result(False, ["tf-rejected"])
    start = o["start"]
    lr = o["lr"]
    skipped = [(o["skip_rank1"] and len(s) <= 1) or any(d > o["skip_gt"] for d in s) for s in shapes]
    if graft == "adafactor":
      steps_ref = _adafactor_steps(case, hist, shapes)
    else:
      ref = GraftRef(graft, shapes, beta2=o["decay"], eps=1e-12)
      steps_ref = [[ref.step(i, np.asarray(g, np.float32)) for i, g in enumerate(gs)] for gs in hist]
  nontrivial = False
  worst_norm = worst_cos = 0.0
  for c in range(len(hist)):
    for i, n in enumerate(names):
      u = ug[c][n] / (-lr)          # pre-momentum update
      d = un[c][n] / (-lr)          # ungrafted direction (NONE twin)
      gstep = steps_ref[c][i]
      gnorm = float(np.linalg.norm(gstep))
      tag = f"{case['opt']}/{case['rep']} graft {graft} step {c} (start {start}) leaf {shapes[i]}"
      require(bool(np.all(np.isfinite(u))), "update-finite", tag)
      if c < start or skipped[i]:
        tol = 2e-5 * max(float(np.max(np.abs(gstep))), 1e-30)
        require(bool(np.all(np.abs(u - gstep) <= tol)), "warmup-or-excluded-leaf-uses-graft-step",
                f"{tag} ({'excluded' if skipped[i] else 'warm-up'}): max |u - graft step| = "
                f"{np.max(np.abs(u - gstep)):.3g} (graft step max {np.max(np.abs(gstep)):.3g})")
        continue
      dn = float(np.linalg.norm(d))
      if dn == 0.0:
        require(not np.any(u), "zero-direction-gives-zero-update", f"{tag}: ungrafted direction is 0 but update is not")
        continue
      un_ = float(np.linalg.norm(u))
      nerr = abs(un_ - gnorm) / max(gnorm, 1e-30)
      worst_norm = max(worst_norm, nerr)
      require(nerr <= 2e-5, "norm-is-graft-norm",
              f"{tag}: |update| = {un_:.9g} but |graft step| = {gnorm:.9g} (rel {nerr:.3g})")
      if gnorm > 0:
        cs = _cos(u, d)
        require(cs is not None and 1 - cs <= 1e-5, "direction-is-preconditioned-gradient",
                f"{tag}: cos(update, ungrafted preconditioned gradient) = {cs}")
        worst_cos = max(worst_cos, 1 - cs)
        c2 = _cos(d, gstep)
        if c2 is not None and c2 < 0.999 and abs(dn - gnorm) > 0.01 * gnorm:
          nontrivial = True
  classes = [f"{case['opt']}-{case['rep']}", f"graft={graft}"]
  if any(skipped):
    classes.append("has-excluded-leaf")
  return Result(nontrivial, classes, metrics={"norm_rel_err": worst_norm, "one_minus_cos": worst_cos}, sub=len(hist))

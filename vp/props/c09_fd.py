"""C09 — frequent-directions sketch brackets the true second moment.

Drivers: 'ds' (direct iteration of frequent_directions_update + _fd_update_root,
float64), 'dsopt' (sketches inside distributed_shampoo(frequent_directions=True)
state after public updates), 'tf' (tearfree sketchy.apply public init/update,
float32), 'oco' (S-AdaGrad sketch of precondition.oco).
"""
import numpy as np
from hypothesis import strategies as st

from vp.core import Result, require

ID = "C09"
LEVEL = "exploration"
ENV = {"x64": True, "devices": 1}
BUDGET = {"quick": 100, "thorough": 1500}
RULE = (
    "Hypothesis-built histories of 1..12 (thorough ..30) steps with per-step "
    "kinds {full-rank, fixed low-rank subspace (rank <= k or k+1), zero, repeat, "
    "scaled 10^[-3,3]} x sketched dimension d in 4..12 x sketch rank k x decay b "
    "in {.25,.5,.9,.99,1} x tensor rank 1..3 / sketched axis x padding 0..4 "
    "(Distributed Shampoo) x ridge {0, relative, absolute}; four drivers (DS FD "
    "root direct in float64, DS optimizer state, Tearfree Sketchy public update "
    "in float32, OCO S-AdaGrad). Oracle: exact float64 covariance recursion. "
    "Non-trivial = mass escapes at >= 2 steps and a zero-gradient or decayed "
    "(b<1) step follows an escape; distinct = hash of the case.")
ASSUMPTIONS = [
    "exact covariance C_t = b (C_{t-1} + ridge_t V V') + G G' where ridge_t is "
    "what the Distributed Shampoo configuration folds into the sketch eigenvalues "
    "per step (0 for Tearfree/OCO, whose epsilon sits inside the inversion)",
    "all comparisons of l, t, r are normalised by ||C||: tau_t = 50 d eps sum_s b^(t-s) ||C_s|| "
    "(one rounding contribution per step, discounted like the covariance); "
    "inverse roots are compared with the conditioning-derived relative tolerance "
    "tau/((l+t) p) and skipped (counted ambiguous-entries) when l+t < 100 tau",
    "Tearfree Sketchy runs in float32 (its NaN guard hard-codes float32), others float64/float32 as the API computes",
]

DECAYS = [0.25, 0.5, 0.9, 0.99, 1.0, 1.0]


@st.composite
def _case(draw, max_t, drivers):
  driver = draw(st.sampled_from(drivers))
  t = draw(st.integers(1, max_t))
  b = draw(st.sampled_from(DECAYS))
  if driver == "oco":
    b = 1.0
  if driver in ("ds",):
    rank = draw(st.integers(1, 3))
    dims = [draw(st.integers(2, 6)) for _ in range(rank)]
    axis = draw(st.integers(0, rank - 1))
    d = draw(st.integers(4, 12))
    dims[axis] = d
    k = draw(st.integers(1, d - 3))
  elif driver == "dsopt":
    d0 = draw(st.integers(4, 10))
    dims = [d0, draw(st.one_of(st.just(d0), st.just(d0), st.integers(4, 10)))]
    axis = 0
    d = dims[0]
    k = draw(st.integers(1, min(dims) - 3))
  elif driver == "tf":
    rank = draw(st.integers(1, 3))
    dims = [draw(st.integers(2, 8)) for _ in range(rank)]
    axis = draw(st.integers(0, rank - 1))
    d = draw(st.integers(3, 12))
    dims[axis] = d
    k = draw(st.integers(1, d))       # k == d: lossless
  else:  # oco
    dims = [draw(st.integers(3, 10))]
    axis = 0
    d = dims[0]
    k = draw(st.integers(1, d - 1))   # sketch size = k + 1
  sub_rank = draw(st.sampled_from([0, 0, max(1, min(k, d) - 1), min(k, d), min(k + 1, d)]))
  steps = draw(st.lists(st.fixed_dictionaries({
      "kind": st.sampled_from(["full", "full", "sub", "sub", "zero", "repeat"]),
      "exp": st.sampled_from([0, 0, 0, -3, -1, 1, 3]),
      "seed": st.integers(0, 2**16)}), min_size=t, max_size=t))
  return {"sharded": (draw(st.booleans()) if driver == "dsopt" else False),
          "driver": driver, "dims": dims, "axis": axis, "k": k, "b": b,
          "pad": draw(st.sampled_from([0, 0, 1, 4])) if driver == "ds" else 0,
          "eps": draw(st.sampled_from([0.0, 1e-6, 1e-3, 1e-10])),
          "rel": draw(st.booleans()),
          "sub_rank": sub_rank, "sub_seed": draw(st.integers(0, 2**16)),
          "delta": draw(st.sampled_from([0.0, 1e-3, 1.0])) if driver == "oco" else 0.0,
          "steps": steps}


def shards(tier):
  q = tier == "quick"
  mt = 12 if q else 30
  return [
      {"name": "ds", "examples": (5 * 260) if q else 5 * 5000, "workers": 5, "max_t": mt, "drivers": ["ds"]},
      {"name": "tf", "examples": (5 * 150) if q else 5 * 3000, "workers": 5, "max_t": mt, "drivers": ["tf"],
       "env": {"x64": False}},
      {"name": "dsopt", "examples": (4 * 40) if q else 4 * 800, "workers": 4, "max_t": min(mt, 8), "drivers": ["dsopt"],
       "env": {"x64": False}},
      {"name": "oco", "examples": (2 * 250) if q else 2 * 5000, "workers": 2, "max_t": mt, "drivers": ["oco"]},
  ]


def case_env(case):
  return {"x64": False} if case["driver"] in ("tf", "dsopt") else {}


def strategy(shard):
  return _case(shard["max_t"], shard["drivers"])


def interpret_exception(exc, tb):
  from vp import core
  frame = core.innermost_repo_frame(tb)
  if frame is not None:
    return "no-crash", f"{type(exc).__name__}: {str(exc)[:160]} in {frame}"
  return None


def history(case):
  dims, axis = case["dims"], case["axis"]
  d = dims[axis]
  m = int(np.prod(dims)) // d
  basis = None
  if case["sub_rank"]:
    basis = np.linalg.qr(np.random.default_rng(case["sub_seed"]).standard_normal((d, case["sub_rank"])))[0]
  out, prev = [], None
  for spec in case["steps"]:
    rng = np.random.default_rng(spec["seed"])
    kind = spec["kind"]
    if kind == "zero":
      g = np.zeros((d, m))
    elif kind == "repeat" and prev is not None:
      g = prev.copy()
    elif kind == "sub" and basis is not None:
      g = basis @ rng.standard_normal((basis.shape[1], m))
    else:
      g = rng.standard_normal((d, m))
    if kind not in ("zero", "repeat"):
      g = g * 10.0 ** spec["exp"]
    prev = g
    # unfold back: (d, m) -> tensor with axis `axis` of size d
    others = [x for i, x in enumerate(dims) if i != axis]
    out.append(np.moveaxis(g.reshape([d] + others), 0, axis))
  return out


def _unfold(g, axis):
  return np.moveaxis(g, axis, 0).reshape(g.shape[axis], -1)


class Tracker:
  """Exact covariance and the per-step sketch laws, one sketched axis."""

  def __init__(self, d, k, b, p, unit, label):
    self.d, self.k, self.b, self.p, self.unit, self.label = d, k, b, p, unit, label
    self.C = np.zeros((d, d))
    self.V = np.zeros((d, k))
    self.l = np.zeros(k)
    self.t = 0.0
    self.escapes = 0
    self.follow = False
    self.ambig_entries = 0
    self.step = 0
    self.worst = 0.0
    self.extra_abs = 0.0      # absolute slack for quantities obtained by a cancelling subtraction (OCO: alpha - delta)

  def advance(self, gmat, V, l, t, ridge_prev, zero_grad):
    """gmat: d x m unfolded gradient; V,l,t: implementation's new sketch state (real rows only)."""
    d, k, b, lab = self.d, self.k, self.b, self.label
    self.step += 1
    s = self.step
    require(np.all(np.isfinite(V)) and np.all(np.isfinite(l)) and np.isfinite(t), "sketch-finite", f"{lab} step {s}")
    lold_r = np.where(np.linalg.norm(self.V, axis=0) > 0, self.l + ridge_prev, 0.0)
    s_old = (self.V * lold_r) @ self.V.T
    self.C = b * (self.C + ridge_prev * (self.V @ self.V.T)) + gmat @ gmat.T
    cn = max(float(np.linalg.norm(self.C, 2)), 1e-300)
    # rounding accumulates over the history: every step contributes O(d u ||C_s||), discounted like C itself
    self.acc_norm = b * getattr(self, "acc_norm", 0.0) + cn
    tau = 50 * d * self.unit * self.acc_norm + self.extra_abs
    # structure
    gram = V.T @ V
    offd = gram - np.diag(np.diag(gram))
    dg = np.diag(gram)
    otol = 1e-9 if self.unit < 1e-10 else 3e-5
    require(float(np.max(np.abs(offd), initial=0.0)) <= otol, "directions-orthogonal",
            f"{lab} step {s}: max |V'V off-diagonal| = {np.max(np.abs(offd)):.3g}")
    require(bool(np.all((np.abs(dg - 1) <= otol) | (np.abs(dg) <= otol))), "directions-unit-or-zero",
            f"{lab} step {s}: column norms^2 {dg}")
    require(bool(np.all(l >= 0)) and t >= 0, "nonnegative", f"{lab} step {s}: l={l} t={t}")
    require(bool(np.all(l[np.abs(dg) <= otol] <= tau)), "zero-direction-zero-eigenvalue",
            f"{lab} step {s}: eigenvalue on a zero direction")
    S = (V * l) @ V.T
    lo = float(np.linalg.eigvalsh(self.C - S)[0])
    hi = float(np.linalg.eigvalsh(S + t * np.eye(d) - self.C)[0])
    self.worst = max(self.worst, -lo / tau, -hi / tau)
    require(lo >= -tau, "bracket-lower", f"{lab} step {s}: lmin(C - V l V') = {lo:.3g}, tau {tau:.3g}, |C| {cn:.3g}")
    require(hi >= -tau, "bracket-upper", f"{lab} step {s}: lmin(V l V' + tI - C) = {hi:.3g}, tau {tau:.3g}, |C| {cn:.3g}")
    # escaped mass recurrence: r = (k+1)-th eigenvalue of b*S_old(+ridge) + GG'
    ev = np.sort(np.linalg.eigvalsh(b * s_old + gmat @ gmat.T))[::-1]
    r = float(max(ev[k], 0.0)) if k < d else 0.0
    want_t = b * self.t + r
    tol_t = 20 * tau
    require(abs(t - want_t) <= tol_t, "escaped-mass-recurrence",
            f"{lab} step {s}: t_new = {t:.9g}, expected b*t_old + r = {b}*{self.t:.9g} + {r:.9g} = {want_t:.9g} "
            f"(tol {tol_t:.3g})", t_new=float(t), want=want_t)
    want_l = np.maximum(ev[:k] - (ev[k] if k < d else 0.0), 0.0)
    got_l = np.sort(l)[::-1]
    require(bool(np.all(np.abs(got_l - want_l) <= tol_t)), "deflated-eigenvalues",
            f"{lab} step {s}: l = {got_l}, expected {want_l}")
    if zero_grad:
      require(bool(np.all(np.abs(got_l - np.sort(b * lold_r)[::-1]) <= tol_t)), "zero-gradient-discounts-sketch",
              f"{lab} step {s}: l = {got_l}, expected b*l_old = {np.sort(b * lold_r)[::-1]}")
      require(abs(t - b * self.t) <= tol_t, "zero-gradient-discounts-escaped-mass",
              f"{lab} step {s}: t = {t:.9g}, expected b*t_old = {b * self.t:.9g}")
    if r > 100 * tau:
      self.escapes += 1
    elif self.escapes >= 1 and (zero_grad or b < 1.0):
      self.follow = True
    if self.escapes >= 2 and (zero_grad or b < 1.0):
      self.follow = True
    self.V, self.l, self.t = V.copy(), l.copy(), float(t)
    return tau, cn

  def check_lossless(self, tau):
    S = (self.V * self.l) @ self.V.T
    require(self.t <= 20 * tau, "lossless-no-escaped-mass",
            f"{self.label}: history rank <= k but t = {self.t:.3g} (tau {tau:.3g})")
    require(float(np.max(np.abs(S - self.C))) <= 20 * tau, "lossless-exact",
            f"{self.label}: history rank <= k but |V l V' - C| = {np.max(np.abs(S - self.C)):.3g}")

  def check_inverse(self, inv, const, eps_in, tau, zero_ok_const=True):
    """inv: stored inverse roots per direction; const: stored root for the complement."""
    p = self.p
    for j in range(self.k):
      base = self.l[j] + self.t
      if self.l[j] <= 100 * tau:
        if inv[j] != 0.0:
          self.ambig_entries += 1
        continue
      want = (base + eps_in) ** (-1.0 / p)
      rtol = tau / (base * p) * 20 + (1e-9 if self.unit < 1e-10 else 2e-5)
      require(abs(inv[j] - want) <= rtol * want, "inverse-root-retained",
              f"{self.label} step {self.step}: stored {inv[j]:.9g}, expected (l+t+eps)^(-1/{p}) = {want:.9g} "
              f"(l={self.l[j]:.6g}, t={self.t:.6g}, eps={eps_in:.3g})")
    if self.t > 100 * tau:
      want = (self.t + eps_in) ** (-1.0 / p)
      rtol = tau / (self.t * p) * 20 + (1e-9 if self.unit < 1e-10 else 2e-5)
      require(abs(const - want) <= rtol * want, "inverse-root-complement",
              f"{self.label} step {self.step}: stored {const:.9g}, expected (t+eps)^(-1/{p}) = {want:.9g}")
    elif self.t == 0.0 and zero_ok_const:
      require(const == 0.0, "inverse-root-complement-zero", f"{self.label} step {self.step}: t = 0 but const = {const}")
    else:
      self.ambig_entries += 1


# ------------------------------------------------------------------ drivers
_JIT = {}


def run_ds(case):
  import jax
  import jax.numpy as jnp
  from precondition import distributed_shampoo as ds
  dims, axis, k, b, pad = case["dims"], case["axis"], case["k"], case["b"], case["pad"]
  d = dims[axis]
  nt = d + pad
  p = 2 * len(dims)
  key = ("ds", nt, k, case["rel"])
  if key not in _JIT:
    def f(stat, prev, eps, decay, ps, pp):
      return ds._fd_update_root(stat, pp, rank=k, ridge_epsilon=eps,  # pylint: disable=protected-access
                                relative_matrix_epsilon=case["rel"], decay=decay,
                                padding_start=ps, prev=prev)[0]
    _JIT[key] = jax.jit(f)
  fn = _JIT[key]
  tr = Tracker(d, k, b, p, 2.0 ** -53, "ds-direct")
  prev = jnp.zeros((nt, k + 2))
  hist = history(case)
  tau = 0.0
  for g in hist:
    r = ds.frequent_directions_update(None, jnp.asarray(g), axis, 0.0, 0.0)
    rr = np.asarray(r)
    gm = _unfold(g, axis)
    gn = max(float(np.linalg.norm(gm @ gm.T, 2)), 1e-300)
    require(rr.shape == (d, d) and float(np.max(np.abs(rr @ rr.T - gm @ gm.T))) <= 1e-12 * gn,
            "gradient-factor", f"R R' != G G' (max diff {np.max(np.abs(rr @ rr.T - gm @ gm.T)):.3g})")
    stat = ds.pad_square_matrix(r, nt)
    lprev0 = float(tr.l.max(initial=0.0)) if False else None
    # ridge folded into the previous eigenvalues by this configuration
    stored_first = float(np.asarray(prev)[-k:, -1][0])
    ridge = case["eps"] * (max(stored_first, 1e-6) if case["rel"] else 1.0)
    new = fn(stat, prev, jnp.asarray(case["eps"]), jnp.asarray(b), jnp.asarray(d, jnp.int32), jnp.asarray(p, jnp.int32))
    V, l, inv, const, tail, hz = ds._fd_low_rank_unpack(new, k)  # pylint: disable=protected-access
    V, l, inv = np.asarray(V), np.asarray(l), np.asarray(inv)
    require(not np.any(V[d:, :]), "padding-rows-zero", "sketch direction rows in the padding are not zero")
    tau, _ = tr.advance(gm, V[:d], l, float(tail), ridge, not np.any(g))
    tr.check_inverse(inv, float(const), 0.0, tau)
    want_hz = bool(np.any(l <= 0) or float(tail) <= 0)
    require(bool(hz) == want_hz, "has-zeros-flag", f"flag {bool(hz)} but l={l}, t={float(tail)}")
    prev = new
  if case["sub_rank"] and case["sub_rank"] <= k and all(s["kind"] in ("sub", "zero", "repeat") for s in case["steps"]) \
      and case["steps"][0]["kind"] != "repeat" and case["eps"] == 0.0:
    tr.check_lossless(tau)
  return tr


def run_tf(case):
  import jax
  import jax.numpy as jnp
  from precondition.tearfree import sketchy
  dims, k, b = case["dims"], case["k"], case["b"]
  ndim = len(dims)
  p = 2 * ndim
  opts = sketchy.Options(epsilon=case["eps"], rank=k, relative_epsilon=case["rel"],
                         second_moment_decay=b, update_freq=1)
  key = ("tf", tuple(dims), k, b, case["eps"], case["rel"])
  tx = sketchy.apply(opts)
  if key not in _JIT:
    if len(_JIT) > 40:
      _JIT.clear()
    _JIT[key] = jax.jit(tx.update)
  upd = _JIT[key]
  params = {"w": jnp.zeros(dims, jnp.float32)}
  state = tx.init(params)
  trs = [Tracker(dims[a], min(k, dims[a]), b, p, 2.0 ** -24, f"tearfree-axis{a}") for a in range(ndim)]
  hist = history(case)
  taus = [0.0] * ndim
  for g in hist:
    g32 = g.astype(np.float32)
    _, state = upd({"w": jnp.asarray(g32)}, state, params)
    for a in range(ndim):
      ax = state.sketches["w"].axes[a]
      V = np.asarray(ax.eigvecs, np.float64)
      l = np.asarray(ax.eigvals, np.float64) ** 2
      t = float(ax.tail)
      gm = _unfold(g32.astype(np.float64), a)
      taus[a], _ = trs[a].advance(gm, V, l, t, 0.0, not np.any(g32))
      und = trs[a].l + trs[a].t
      eps_in = case["eps"] * float(np.max(und, initial=0.0)) if (case["rel"] and case["eps"] > 0) else case["eps"]
      trs[a].check_inverse(np.asarray(ax.inv_eigvals, np.float64), float(ax.inv_tail), eps_in, taus[a],
                           zero_ok_const=True)
  a0 = case["axis"]
  if case["sub_rank"] and case["sub_rank"] <= min(k, dims[a0]) and \
      all(s["kind"] in ("sub", "zero", "repeat") for s in case["steps"]) and case["steps"][0]["kind"] != "repeat":
    trs[a0].check_lossless(taus[a0])
  # report the tracker of the axis the history was shaped for
  tr = trs[a0]
  tr.ambig_entries = sum(t.ambig_entries for t in trs)
  tr.worst = max(t.worst for t in trs)
  return tr


def run_dsopt(case):
  import contextlib
  import jax
  import jax.numpy as jnp
  from precondition import distributed_shampoo as ds
  dims, k, b = case["dims"], case["k"], case["b"]
  sharded = bool(case.get("sharded"))
  key = ("dsopt", tuple(dims), k, b, case["eps"], case["rel"], sharded)
  o = dict(block_size=64, beta1=0.0, beta2=b, matrix_epsilon=case["eps"],
           start_preconditioning_step=1, preconditioning_compute_steps=1, statistics_compute_steps=1,
           best_effort_shape_interpretation=False, graft_type="SGD",
           relative_matrix_epsilon=case["rel"], compression_rank=k, frequent_directions=True,
           reuse_preconditioner=True, generate_training_metrics=False, lr=0.1)
  from vp import dsh
  opt = dsh.make_opt(o, "sharded" if sharded else "plain", 1)
  params = {"w": jnp.zeros(dims, jnp.float32)}
  ctx = contextlib.nullcontext()
  if sharded:
    from jax.sharding import Mesh
    ctx = Mesh(np.array(jax.devices()[:1]), ("x",))
    with ctx:
      state = opt.init(None).init_fn(params)
  else:
    state = opt.init(params)
  if key not in _JIT:
    if len(_JIT) > 20:
      _JIT.clear()
    with ctx:
      _JIT[key] = jax.jit(opt.update)
  upd_raw = _JIT[key]

  def upd(g, st_, p):
    with ctx:
      return upd_raw(g, st_, p)

  def packed_of(st_, a):
    """Packed preconditioner of axis a at its real size."""
    if not sharded:
      return st_.stats["w"].preconditioners[a]
    ls = st_.stats.local_stats["w"]
    full = st_.stats.global_stats.preconditioners[int(ls.index_start) + a]
    # the global array keeps every statistic padded to the largest one: the packed slots sit at the end of
    # the padded matrix, the directions in its first dims[a] rows
    return full

  p = 4
  trs = [Tracker(dims[a], k, b, p, 2.0 ** -24, f"ds-optimizer{'-sharded' if sharded else ''}-axis{a}") for a in range(2)]
  hist = history(case)
  taus = [0.0, 0.0]
  mx = max(dims)
  lost = None
  excluded = set()
  for g in hist:
    g32 = g.astype(np.float32)
    prev_pre = [np.asarray(packed_of(state, a)) for a in range(2)]
    _, state = upd({"w": jnp.asarray(g32)}, state, params)
    for a in range(2):
      packed = packed_of(state, a)
      if not sharded:
        require(tuple(packed.shape) == (dims[a], k + 2), "packed-shape", f"{packed.shape}")
      V, l, inv, const, tail, hz = ds._fd_low_rank_unpack(packed, k)  # pylint: disable=protected-access
      V = V[:dims[a]]
      gm = _unfold(g32.astype(np.float64), a)
      if dims[a] < mx:
        # Former known finding KF-C09-1 (repaired in /repo): the packed layout keeps
        # the sketch eigenvalues (and the has_zeros flag) in the LAST rows of the
        # matrix padded to the largest statistic; un-padding to the real size used
        # to drop them, so a statistic smaller than the largest one forgot its
        # sketch at every step.  If that ever returns it is reported under its own
        # clause and the axis is excluded from the remaining laws (counted).
        ev = np.sort(np.linalg.eigvalsh(gm @ gm.T))[::-1]
        expect_first = ev[0] - ev[k]
        if a not in excluded and trs[a].step == 0 and expect_first > 1e-3 * ev[0] and not np.any(np.asarray(l)):
          excluded.add(a)
          if lost is None:
            lost = (f"axis {a} (dim {dims[a]} < largest statistic {mx}) after one update: stored sketch "
                    f"eigenvalues {np.asarray(l)} but the deflated top eigenvalue is {expect_first:.6g}")
        if a in excluded:
          continue
      stored_first = float(prev_pre[a][-k:, -1][0])
      ridge = case["eps"] * (max(stored_first, 1e-6) if case["rel"] else 1.0)
      taus[a], _ = trs[a].advance(gm, np.asarray(V, np.float64), np.asarray(l, np.float64), float(tail),
                                  ridge, not np.any(g32))
      trs[a].check_inverse(np.asarray(inv, np.float64), float(const), 0.0, taus[a])
  full = [a for a in range(2) if a not in excluded]
  tr = trs[full[0]]
  tr.ambig_entries = sum(trs[a].ambig_entries for a in full)
  tr.worst = max(trs[a].worst for a in full)
  tr.excluded_axes = 2 - len(full)
  if lost is not None:
    from vp.core import Violation
    raise Violation("dsopt-sketch-survives-unpadding", lost, {"smaller_than_largest_statistic": True})
  return tr


def run_oco(case):
  import jax.numpy as jnp
  from precondition.oco import algorithms as alg
  n, ell = case["dims"][0], case["k"] + 1
  hp = alg.HParams(delta=case["delta"], lr=0.1, sketch_size=ell, algorithm=alg.Algorithm.S_ADA)
  init, update = alg.generate_init_update((n,), hp)
  state = init()
  tr = Tracker(n, ell, 1.0, 2, 2.0 ** -53, "oco-s-adagrad")
  tr.k = ell - 1          # the last sketch row is always deflated to zero
  tr.extra_abs = 16 * 2.0 ** -53 * max(case["delta"], 0.0)   # t = alpha - delta cancels when delta >> escaped mass
  tau = 0.0
  for g in history(case):
    g = g.reshape(n)
    state = update(dict(state), 0.0, jnp.asarray(g))
    P, e = np.asarray(state["P"]), np.asarray(state["e"])
    order = np.argsort(-e)
    V = P.T[:, order][:, :ell - 1] * (e[order][:ell - 1] > 0)
    l = (e[order] ** 2)[:ell - 1]
    require(float(e[order][-1]) <= 1e-7 * max(float(e.max(initial=0.0)), 1e-300) + 1e-300, "oco-last-row-zero",
            f"smallest sketch singular value {e[order][-1]}")
    tr.V = tr.V[:, :ell - 1] if tr.V.shape[1] != ell - 1 else tr.V
    tr.l = tr.l[:ell - 1]
    tau, _ = tr.advance(g.reshape(n, 1), V, l, float(state["alpha"]) - case["delta"], 0.0, not np.any(g))
  return tr


def check(case):
  tr = {"ds": run_ds, "tf": run_tf, "dsopt": run_dsopt, "oco": run_oco}[case["driver"]](case)
  nontrivial = tr.escapes >= 2 and tr.follow
  classes = [f"driver={case['driver']}", f"b={case['b']}",
             "escapes>=2" if tr.escapes >= 2 else ("escapes=1" if tr.escapes else "no-escape"),
             "ridge" if case["eps"] else "no-ridge"]
  if any(s["kind"] == "zero" for s in case["steps"]):
    classes.append("has-zero-step")
  if getattr(tr, "excluded_axes", 0):
    classes.append("excluded-axis-sketch-lost")
  if case.get("sharded"):
    classes.append("dsopt-sharded")
  return Result(nontrivial, classes, metrics={"bracket_violation_over_tau": max(tr.worst, 0.0),
                                              "ambiguous_inverse_entries": tr.ambig_entries},
                sub=len(case["steps"]))

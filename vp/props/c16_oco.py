"""C16 — OCO algorithms match closed forms; lossless S-AdaGrad is full-matrix AdaGrad."""
import numpy as np
from hypothesis import strategies as st

from vp.core import Result, require

ID = "C16"
LEVEL = "exploration"
ENV = {"x64": True, "devices": 1}
BUDGET = {"quick": 80, "thorough": 1200}
RULE = (
    "Hypothesis-built (algorithm in {OGD, ADA, S_ADA, ADA_FD, FD_SON, RFD_SON}, "
    "weight shape (n,) or (a,b) with 2..10 entries, sketch size 2..n, delta in "
    "{0 where the method allows it, 1e-6..1}, lr) x gradient sequences of 1..15 "
    "steps with kinds {dense, low-rank subspace of dimension < sketch size, zero, "
    "repeat, scaled 10^[-3,3]}; update functions called eagerly or under jit on a "
    "copy of the state; float64. Non-trivial = T >= 3 and (closed-form method, or "
    "sketched with >= 1 step of positive escaped mass rho, or the lossless "
    "low-rank class with delta > 0); distinct = hash of the case.")
ASSUMPTIONS = [
    "jax_enable_x64 (the states are float64); tolerances 1e-9 relative to the "
    "scale of the compared quantity",
    "ADA_FD is only run with delta > 0 (its update divides by alpha + e)",
    "escaped mass rho_t is recomputed by a NumPy SVD of the matrix the method "
    "documents (previous sketch with its last row replaced by the scaled gradient)",
]

ALGS = ["OGD", "ADA", "S_ADA", "ADA_FD", "FD_SON", "RFD_SON"]


@st.composite
def _case(draw, max_t):
  alg = draw(st.sampled_from(ALGS + ["S_ADA", "S_ADA"]))
  if draw(st.booleans()):
    shape = [draw(st.integers(2, 10))]
  else:
    shape = draw(st.sampled_from([[1, 2], [2, 1], [2, 2], [2, 3], [3, 2], [2, 4], [3, 3], [2, 5], [1, 7]]))
  n = int(np.prod(shape))
  sketch = 0 if alg in ("OGD", "ADA") else draw(st.integers(2, n))
  deltas = [1e-10, 1e-8, 1e-6, 1e-3, 0.1, 1.0, 0.5]
  if alg != "ADA_FD":
    deltas = deltas + [0.0]
  delta = draw(st.sampled_from(deltas))
  lr = draw(st.sampled_from([1.0, 0.1, 0.25, 3.0]))
  lowrank = draw(st.booleans()) if sketch >= 2 else False
  sub_dim = draw(st.integers(1, max(1, sketch - 1))) if lowrank else 0
  t = draw(st.integers(1, max_t))
  kinds = ["dense", "dense", "zero", "repeat", "scaled"]
  steps = draw(st.lists(st.fixed_dictionaries({
      "kind": st.sampled_from(kinds), "exp": st.sampled_from([-6, -5, -4, -3, -2, -1, 0, 1, 2, 3]),
      "seed": st.integers(0, 2**16)}), min_size=t, max_size=t))
  return {"gscale_exp": draw(st.sampled_from([0, 0, 0, -3, -5, -6, 2])),
          "alg": alg, "shape": shape, "sketch": sketch, "delta": delta, "lr": lr,
          "sub_dim": sub_dim, "sub_seed": draw(st.integers(0, 2**16)),
          "jit": draw(st.booleans()), "steps": steps}


@st.composite
def _train_case(draw):
  alg = draw(st.sampled_from(["OGD", "ADA", "S_ADA", "S_ADA"]))
  n = draw(st.integers(2, 6))
  sketch = 0 if alg != "S_ADA" else draw(st.integers(2, n))
  rows = draw(st.integers(3, 24))
  return {"driver": "train", "alg": alg, "n": n, "sketch": sketch, "rows": rows,
          "num_obs": draw(st.integers(2, min(7, rows + 1))),
          "delta": draw(st.sampled_from([1e-6, 1e-3, 0.5, 1.0])), "lr": draw(st.sampled_from([1.0, 0.25])),
          "sub_dim": draw(st.integers(1, max(1, sketch - 1))) if alg == "S_ADA" else 0,
          "seed": draw(st.integers(0, 2**16))}


def shards(tier):
  if tier == "quick":
    return [{"name": "seq", "examples": 13 * 420, "workers": 13, "max_t": 15},
            {"name": "train", "examples": 3 * 60, "workers": 3}]
  return [{"name": "seq", "examples": 13 * 6000, "workers": 13, "max_t": 25},
          {"name": "train", "examples": 3 * 1200, "workers": 3}]


def strategy(shard):
  if shard["name"] == "train":
    return _train_case()
  return _case(shard["max_t"])


def check_train(case):
  """Drives precondition.oco.train.run_dataset on a synthetic dataset whose loss is linear in w."""
  import jax
  import jax.numpy as jnp
  from precondition.oco import algorithms as alg
  from precondition.oco import datasets, train
  n, rows = case["n"], case["rows"]
  rng = np.random.default_rng(case["seed"])
  if case["sub_dim"]:
    x = rng.standard_normal((rows, case["sub_dim"])) @ rng.standard_normal((case["sub_dim"], n))
  else:
    x = rng.standard_normal((rows, n))
  y = rng.integers(0, 2, rows).astype(np.float64)

  def linear_loss(w, xr, yr):
    return (2.0 * yr - 1.0) * jnp.dot(w, xr, precision=jax.lax.Precision.HIGHEST)

  ds_obj = datasets.SimpleDataset(x, y, linear_loss, (n,))
  hp = alg.HParams(delta=case["delta"], lr=case["lr"], sketch_size=case["sketch"],
                   algorithm=alg.Algorithm[case["alg"]])
  saved = train.datasets.load_dataset
  train.datasets.load_dataset = lambda name, cache=None: ds_obj
  try:
    hist = train.run_dataset("synthetic", case["num_obs"], hp)
  finally:
    train.datasets.load_dataset = saved
  obs = np.round(np.linspace(0, rows, num=case["num_obs"], endpoint=True)).astype(int)
  W = np.asarray(hist["w"], np.float64)
  N = np.asarray(hist["n"])
  L = np.asarray(hist["loss"], np.float64)
  require(W.shape == (len(obs), n), "train-history-shape", f"{W.shape} vs {(len(obs), n)}")
  grads = (2.0 * y - 1.0)[:, None] * x
  delta, lr = case["delta"], case["lr"]
  iterates = [np.zeros(n)]
  scales = [1e-300]
  w = np.zeros(n)
  diag_h = np.full(n, delta)
  cov = delta * np.eye(n)
  for t, g in enumerate(grads, start=1):
    if case["alg"] == "OGD":
      w = w - lr * g / np.sqrt(t + delta)
    elif case["alg"] == "ADA":
      diag_h = diag_h + g * g
      w = w - lr * g / np.sqrt(np.where(diag_h == 0, 1.0, diag_h))
    else:
      cov = cov + np.outer(g, g)
      w = w - lr * _psd_power(cov, -0.5) @ g
    scales.append(scales[-1] + float(np.max(np.abs(w - iterates[-1]), initial=0.0)))
    iterates.append(w.copy())
  losses = np.concatenate([[0.0], np.cumsum([float(np.dot(iterates[t], grads[t])) for t in range(rows)])])
  for j, k in enumerate(obs):
    require(int(N[j]) == int(k), "train-row-counter", f"observation {j}: n = {int(N[j])}, expected {int(k)}")
    tol = 1e-6 * max(scales[k], 1e-12)
    require(bool(np.all(np.abs(W[j] - iterates[k]) <= tol)), f"train-{case['alg'].lower()}-iterates",
            f"after {int(k)} rows (observation {j} of {len(obs)}): |w - closed form| = "
            f"{np.max(np.abs(W[j] - iterates[k])):.3g}")
    ltol = 1e-6 * max(float(np.max(np.abs(losses))), 1e-12)
    require(abs(L[j] - losses[k]) <= ltol, "train-cumulative-loss",
            f"after {int(k)} rows: loss {L[j]:.9g} vs {losses[k]:.9g}")
  return Result(len(obs) >= 3 and rows >= 3, [f"train-{case['alg']}", f"chunks={min(len(obs) - 1, 4)}"], sub=rows)


def history(case):
  n = int(np.prod(case["shape"]))
  basis = None
  if case["sub_dim"]:
    rng = np.random.default_rng(case["sub_seed"])
    basis = rng.standard_normal((case["sub_dim"], n))
  out, prev = [], None
  for spec in case["steps"]:
    rng = np.random.default_rng(spec["seed"])
    if basis is not None:
      g = rng.standard_normal(case["sub_dim"]) @ basis
    else:
      g = rng.standard_normal(n)
    k = spec["kind"]
    if k == "zero":
      g = np.zeros(n)
    elif k == "repeat" and prev is not None:
      g = prev.copy()
    elif k == "scaled":
      g = g * 10.0 ** spec["exp"]
    prev = g
    out.append(g * 10.0 ** case.get("gscale_exp", 0))
  return out


_CACHE = {}


def _fns(case):
  import jax
  from precondition.oco import algorithms as alg
  key = (case["alg"], tuple(case["shape"]), case["sketch"], case["delta"], case["lr"])
  if key in _CACHE:
    return _CACHE[key]
  hp = alg.HParams(delta=case["delta"], lr=case["lr"], sketch_size=case["sketch"],
                   algorithm=alg.Algorithm[case["alg"]])
  init, update = alg.generate_init_update(tuple(case["shape"]), hp)

  def step(state, g):
    return update(dict(state), 0.0, g)

  jstep = jax.jit(step)
  if len(_CACHE) > 48:
    _CACHE.clear()
  _CACHE[key] = (init, step, jstep)
  return _CACHE[key]


def _psd_power(m, p):
  w, v = np.linalg.eigh((m + m.T) / 2)
  w = np.where(w > 0, w, 0.0)
  wp = np.where(w > 0, np.power(np.where(w > 0, w, 1.0), p), 0.0)
  return (v * wp) @ v.T


def check(case):
  if case.get("driver") == "train":
    return check_train(case)
  import jax.numpy as jnp
  init, step, jstep = _fns(case)
  fn = jstep if case["jit"] else step
  shape = tuple(case["shape"])
  n = int(np.prod(shape))
  alg, delta, lr, ell = case["alg"], case["delta"], case["lr"], case["sketch"]
  hist = history(case)
  state = init()
  w_ref = np.zeros(n)              # closed-form iterate
  w_scale = 1e-300                 # cumulative magnitude of the increments (the iterate itself may cancel)
  diag_h = np.full(n, delta)
  cov = np.zeros((n, n))           # exact sum of (scaled) gradient outer products
  cov_raw = np.zeros((n, n))
  rho_sum = 0.0
  escapes = 0
  prev = {k: np.asarray(v, np.float64) for k, v in state.items()}
  for t, g in enumerate(hist, start=1):
    new_state = fn(state, jnp.asarray(g.reshape(shape)))
    require(set(new_state) == set(prev), "state-keys", f"{sorted(new_state)}")
    cur = {k: np.asarray(v, np.float64) for k, v in new_state.items()}
    for k, v in cur.items():
      require(v.shape == prev[k].shape, "state-shapes", f"{k}: {v.shape} vs {prev[k].shape}")
    w = cur["w"].ravel()
    if alg == "OGD":
      w_ref = w_ref - lr * g / np.sqrt(t + delta)
      w_scale += float(np.max(np.abs(lr * g / np.sqrt(t + delta)), initial=0.0))
      tol = 1e-9 * w_scale
      require(float(cur["t"]) == float(t), "ogd-t", f"t={float(cur['t'])} after {t} steps")
      require(bool(np.all(np.abs(w - w_ref) <= tol)), "ogd-closed-form",
              f"step {t}: |w - closed form| = {np.max(np.abs(w - w_ref)):.3g}")
    elif alg == "ADA":
      diag_h = diag_h + g * g
      inc = lr * g / np.sqrt(np.where(diag_h == 0, 1.0, diag_h))
      w_ref = w_ref - inc
      w_scale += float(np.max(np.abs(inc), initial=0.0))
      tol = 1e-9 * w_scale
      require(bool(np.all(np.abs(cur["diag_h"].ravel() - diag_h) <= 1e-12 * np.maximum(diag_h, 1e-300))),
              "ada-accumulator", f"step {t}")
      require(bool(np.all(np.abs(w - w_ref) <= tol)), "ada-closed-form",
              f"step {t}: |w - closed form| = {np.max(np.abs(w - w_ref)):.3g}")
    else:
      # ---- sketched methods
      if alg == "RFD_SON":
        f = 1.0 / np.sqrt(t * lr)
      elif alg == "FD_SON":
        f = 1.0 / np.sqrt(np.sqrt(t) * lr)
      else:
        f = 1.0
      gt = g * f
      cov = cov + np.outer(gt, gt)
      scale = max(float(np.trace(cov)), 1e-300)
      # escaped mass from the documented construction, on the previous state
      b_prev = prev["P"] * prev["e"].reshape(-1, 1)
      b_prev[-1] = gt
      sv = np.linalg.svd(b_prev, compute_uv=False)
      rho2 = float(sv[-1] ** 2)
      rho_sum += rho2
      if rho2 > 1e-18 * scale:
        escapes += 1
      P, e, alpha = cur["P"], cur["e"], float(cur["alpha"])
      require(np.all(np.isfinite(P)) and np.all(np.isfinite(e)) and np.isfinite(alpha),
              "sketch-finite", f"step {t}")
      require(float(cur["t"]) == float(t), "fd-t", f"t={float(cur['t'])} after {t} steps")
      require(bool(np.all(e >= 0)), "e-nonneg", f"step {t}: e={e}")
      B = P * e.reshape(-1, 1)
      require(float(np.max(np.abs(B[-1]))) <= 1e-7 * np.sqrt(scale), "last-row-zero",
              f"step {t}: last sketch row {B[-1]}")
      gram = P @ P.T
      require(float(np.max(np.abs(gram - np.eye(ell)))) <= 1e-9, "P-orthonormal",
              f"step {t}: |PP'-I| = {np.max(np.abs(gram - np.eye(ell))):.3g}")
      S = B.T @ B
      tau = 1e-9 * scale
      lo = np.linalg.eigvalsh(cov - S)[0]
      hi = np.linalg.eigvalsh(S + rho_sum * np.eye(n) - cov)[0]
      require(lo >= -tau, "bracket-lower", f"step {t}: lmin(C - B'B) = {lo:.3g} (|C|={scale:.3g})")
      require(hi >= -tau, "bracket-upper",
              f"step {t}: lmin(B'B + sum(rho^2) I - C) = {hi:.3g} (|C|={scale:.3g})")
      # the deflated spectrum itself
      want_e2 = np.sort(np.maximum(sv ** 2 - sv[-1] ** 2, 0.0))[::-1]
      got_e2 = np.sort(e ** 2)[::-1]
      require(bool(np.all(np.abs(got_e2 - want_e2) <= 1e-9 * max(sv[0] ** 2, 1e-300))),
              "deflated-spectrum", f"step {t}: e^2={got_e2} want {want_e2}")
      factor = {"S_ADA": 1.0, "RFD_SON": 0.5}.get(alg, 0.0)
      want_alpha = float(prev["alpha"]) + factor * rho2
      require(abs(alpha - want_alpha) <= 1e-9 * max(abs(want_alpha), 1e-300) + 1e-12 * scale * factor,
              "alpha-update", f"step {t}: alpha {alpha:.17g} want {want_alpha:.17g}")
      if alg == "S_ADA":
        require(abs(alpha - (delta + rho_sum)) <= 1e-9 * max(delta + rho_sum, 1e-300) + 1e-12 * scale,
                "sada-alpha-is-delta-plus-escaped", f"step {t}: alpha {alpha} vs {delta + rho_sum}")
      elif alg in ("ADA_FD", "FD_SON"):
        require(alpha == delta, "alpha-constant", f"step {t}: alpha {alpha} vs delta {delta}")
      # documented iterate: w -= lr_eff * f(alpha I + sketch) g
      lr_eff = lr if alg in ("S_ADA", "ADA_FD") else 1.0
      # dense operator from the eigen-decomposition of the sketch covariance;
      # eigenvalues below 1e-12 of the largest are rounding noise of a
      # rank-deficient sketch and count as exactly 0 (inverse of 0 is 0).
      lam_raw, vec = np.linalg.eigh(S)
      lam = np.where(lam_raw > 1e-12 * max(lam_raw[-1], 1e-300), lam_raw, 0.0)
      if alg == "S_ADA":
        # with alpha > 0 nothing is inverted at 0: small eigenvalues are kept as they are (a genuine 1e-8 eigenvalue
        # next to a 1e4 one changes (alpha + lam)^(-1/2) by lam / (2 alpha), which the 1e-7 tolerance below sees)
        d = alpha + (np.maximum(lam_raw, 0.0) if alpha > 0 else lam)
        fd = np.where(d > 0, 1.0 / np.sqrt(np.where(d > 0, d, 1.0)), 0.0)
      elif alg == "ADA_FD":
        fd = 1.0 / (alpha + np.sqrt(lam))
      else:
        d = alpha + lam
        fd = np.where(d > 0, 1.0 / np.where(d > 0, d, 1.0), 0.0)
      M = (vec * fd) @ vec.T
      nzl = lam[lam > 0]
      # Only S-AdaGrad's iterate is pinned by the property (it must coincide
      # with full-matrix AdaGrad in the lossless case, i.e. it applies
      # (alpha I + B'B)^(-1/2)); only for delta > 0 and a conditioning that a
      # 1e-7 tolerance can decide.
      cond_ok = (alg == "S_ADA" and delta > 0 and
                 alpha >= 1e-6 * (float(nzl.max()) if len(nzl) else 0.0))
      if cond_ok:
        w_want = prev["w"].ravel() - lr_eff * (M @ g)
        tol = 1e-7 * max(float(np.max(np.abs(lr_eff * (M @ g)))), 1e-300) + 1e-12 * np.max(np.abs(w_want))
        require(bool(np.all(np.abs(w - w_want) <= tol)), "sketched-iterate-formula",
                f"step {t}: |w - documented step| = {np.max(np.abs(w - w_want)):.3g} tol {tol:.3g}")
      if alg == "S_ADA" and case["sub_dim"] and delta > 0:
        cov_raw = cov_raw + np.outer(g, g)
        require(rho2 <= 1e-18 * scale + 1e-300, "lossless-no-escape",
                f"step {t}: rho^2 = {rho2:.3g} for a history of rank < sketch size")
        inc = lr * _psd_power(delta * np.eye(n) + cov_raw, -0.5) @ g
        w_ref = w_ref - inc
        w_scale += float(np.max(np.abs(inc), initial=0.0))
        if (delta + np.linalg.eigvalsh(cov_raw)[-1]) / delta < 1e10:
          tol = 1e-6 * w_scale
          require(bool(np.all(np.abs(w - w_ref) <= tol)), "sada-equals-full-matrix-adagrad",
                  f"step {t}: |w - full-matrix AdaGrad| = {np.max(np.abs(w - w_ref)):.3g} tol {tol:.3g}")
    state = new_state
    prev = cur
  T = len(hist)
  lossless = alg == "S_ADA" and case["sub_dim"] > 0 and delta > 0
  nontrivial = T >= 3 and (alg in ("OGD", "ADA") or escapes >= 1 or lossless)
  classes = [f"alg={alg}", f"jit={case['jit']}", "delta=0" if delta == 0 else "delta>0",
             "lowrank" if case["sub_dim"] else "fullrank",
             "escape" if escapes else "no-escape"]
  if lossless:
    classes.append("lossless-sada")
  return Result(nontrivial, classes, sub=T)

"""C14 — training resumes bit-identically from serialized optimizer state at any step."""
import numpy as np
from hypothesis import strategies as st

from vp import dsh
from vp.core import Result, require

ID = "C14"
LEVEL = "exploration"
ENV = {"x64": False, "devices": 1}
BUDGET = {"quick": 130, "thorough": 2700}
TRACE_CASES = True      # expensive cases: record the case in flight so a hang can be named
RULE = (
    "Hypothesis-built (optimizer in {Distributed Shampoo full / int8+int16 "
    "quantised under pmap / compressed / frequent directions (+ gradient "
    "averaging), SM3, Tearfree Shampoo, Tearfree Sketchy} with drawn options: "
    "intervals > 1, start step inside the history, momentum on) x tree x history "
    "of 2..5 (thorough ..8) steps, and EVERY interruption point k in 0..T: the "
    "state after k steps goes through flax.serialization to_bytes / from_bytes "
    "into the init() template of a freshly constructed optimizer and training "
    "continues. Oracle: updates and states byte-identical to the uninterrupted "
    "run. Non-trivial = an interruption 0 < k < T with a refresh step and the "
    "start step on different sides of k; distinct = hash of the case.")
ASSUMPTIONS = [
    "restored leaves (NumPy arrays) are passed to a jitted / pmapped update as "
    "arguments, as a training loop does; feeding raw NumPy leaves to an eager "
    "update is outside the domain",
    "flax msgpack serialization (the mechanism the property names), not orbax/TF checkpoints",
]

FAMS = ["ds-full", "ds-full", "ds-quantized", "ds-compressed", "ds-fd", "sm3", "tf-shampoo", "tf-sketchy"]


@st.composite
def _case(draw, max_t):
  fam = draw(st.sampled_from(FAMS))
  nleaves = draw(st.sampled_from([1, 2, 2]))
  tf = fam.startswith("tf")
  shapes = []
  for _ in range(nleaves):
    r = draw(st.sampled_from([1, 2, 2, 3]))
    lo = 2 if tf else 1
    shapes.append([draw(st.integers(lo, 6)) for _ in range(r)])
  t = draw(st.integers(2, max_t))
  o = {}
  if fam.startswith("ds"):
    o = {"block_size": draw(st.sampled_from([2, 3, 128])), "beta1": draw(st.sampled_from([0.9, 0.5])),
         "beta2": draw(st.sampled_from([0.99, 1.0])),
         "start_preconditioning_step": draw(st.one_of(st.integers(1, max(1, t - 1)), st.integers(0, t))),
         "preconditioning_compute_steps": draw(st.sampled_from([1, 2, 2, 3])),
         "statistics_compute_steps": draw(st.sampled_from([1, 2])),
         "graft_type": draw(st.sampled_from(["SGD", "RMSPROP", "ADAGRAD", "RMSPROP_NORMALIZED"])),
         "nesterov": draw(st.booleans()), "weight_decay": draw(st.sampled_from([0.0, 0.01])),
         "matrix_epsilon": 1e-3, "lr_sched": draw(st.sampled_from([None, {"every": 2}])),
         "eigh": draw(st.booleans()), "moving_average_for_momentum": draw(st.booleans())}
    if fam == "ds-quantized":
      o["best_effort_memory_usage_reduction"] = True
    if fam == "ds-compressed":
      o["compression_rank"] = draw(st.sampled_from([1, -1, 2]))
      o["block_size"] = 128
      shapes.append([draw(st.integers(5, 8)), draw(st.integers(2, 6))])
    if fam == "ds-fd":
      o.update(compression_rank=draw(st.sampled_from([1, 2])), frequent_directions=True, reuse_preconditioner=True,
               average_grad=draw(st.booleans()), generate_fd_metrics=draw(st.booleans()),
               skip_preconditioning_rank_lt=draw(st.sampled_from([1, 2])))
      o["statistics_compute_steps"] = o["preconditioning_compute_steps"]
      o["block_size"] = 128
      shapes.append([draw(st.integers(5, 8)), draw(st.integers(2, 6))])
  elif fam == "sm3":
    o = {"beta1": draw(st.sampled_from([0.0, 0.9])), "beta2": draw(st.sampled_from([0.999, 1.0])),
         "weight_decay": draw(st.sampled_from([0.0, 0.1])), "normalize_grads": draw(st.booleans()),
         "lr_sched": draw(st.booleans())}
  else:
    o = {"second_order": fam[3:], "merge_dims": draw(st.sampled_from([2, 4, 16])),
         "graft": draw(st.sampled_from(["sgd", "rmsprop", "adafactor", "none"])),
         "graft_start": draw(st.one_of(st.integers(1, max(1, t - 1)), st.integers(0, t))), "skip_rank1": draw(st.booleans()), "skip_gt": 4096,
         "ema": draw(st.booleans()), "nesterov": draw(st.booleans()), "momentum_decay": draw(st.sampled_from([0.9, 0.0])),
         "weight_decay": draw(st.sampled_from([0.0, 0.01])), "wd_after": draw(st.booleans()),
         "lr_sched": draw(st.booleans()),
         "block_size": draw(st.sampled_from([2, 3, 4])), "pfreq": draw(st.sampled_from([1, 2, 2])),
         "sfreq": draw(st.sampled_from([1, 2])), "decay": draw(st.sampled_from([0.9, 1.0])),
         "rank": draw(st.sampled_from([1, 2, 8])), "add_ggt": draw(st.booleans()), "ekfac_svd": draw(st.booleans()),
         "linear_approx_tail": False, "relative_epsilon": draw(st.booleans()), "freq": draw(st.sampled_from([1, 2]))}
  steps = [{"kind": draw(st.sampled_from(["dense", "dense", "sparse", "zero"])), "exp": 0,
            "seed": draw(st.integers(0, 2**16))} for _ in range(t)]
  return {"fam": fam, "shapes": shapes, "o": o, "steps": steps}


def shards(tier):
  q = tier == "quick"
  return [{"name": "all", "examples": 16 * (8 if q else 130), "workers": 16, "max_t": 5 if q else 8}]


def strategy(shard):
  return _case(shard["max_t"])


def interpret_exception(exc, tb):
  from vp import core
  frame = core.innermost_repo_frame(tb)
  if frame is not None:
    return "runs", f"{type(exc).__name__}: {str(exc)[:200]} in {frame}"
  return None


def make(case):
  """Fresh optimizer object + (init, update) callables taking/returning host-visible trees."""
  import jax
  fam = case["fam"]
  if fam.startswith("ds"):
    mode = "pmap" if fam == "ds-quantized" else "plain"
    opt = dsh.make_opt(case["o"], mode)
    if mode == "pmap":
      init = jax.pmap(opt.init, axis_name="batch")
      upd = jax.pmap(opt.update, axis_name="batch")
      return init, upd, True
    return opt.init, jax.jit(opt.update), False
  from vp.props import c07_contract
  opt = c07_contract.build_optimizer({"opt": "sm3" if fam == "sm3" else "tearfree", "o": case["o"]})
  return opt.init, jax.jit(opt.update), False


def _bytes_of(tree):
  import jax
  return [np.asarray(x).tobytes() for x in jax.tree.leaves(tree)]


def check(case):
  import jax
  import jax.numpy as jnp
  from flax import serialization
  shapes = [tuple(s) for s in case["shapes"]]
  params = dsh.params_from(shapes)
  hist = dsh.history_np(case["steps"], shapes)
  T = len(hist)
  try:
    init, upd, rep = make(case)
    lift = (lambda t: jax.tree.map(lambda x: x[None], t)) if rep else (lambda t: t)
    p = lift(params)
    state = init(p)
  except (ValueError, AssertionError) as e:
    if isinstance(e, AssertionError) and not str(e).strip():
      raise
    return Result(False, [f"fam={case['fam']}", "rejected"])
  grads = [lift(dsh.to_tree(gs)) for gs in hist]
  states = [state]
  updates = []
  try:
    for g in grads:
      u, state = upd(g, state, p)
      updates.append(_bytes_of(u))
      states.append(state)
  except (ValueError, AssertionError) as e:
    if isinstance(e, AssertionError) and not str(e).strip():
      raise
    return Result(False, [f"fam={case['fam']}", "rejected"])
  state_bytes = [_bytes_of(s) for s in states]
  # a second, independently constructed optimizer gives the identical run (no hidden Python-side state)
  init2, upd2, _ = make(case)
  s2 = init2(p)
  require(_bytes_of(s2) == state_bytes[0], "independent-construction-identical", "two fresh optimizers give different initial states")
  for c, g in enumerate(grads):
    u2, s2 = upd2(g, s2, p)
    require(_bytes_of(u2) == updates[c], "independent-construction-identical",
            f"{case['fam']}: update {c} differs between two independently constructed optimizers")
  nontrivial = False
  for k in range(T + 1):
    try:
      blob = serialization.to_bytes(states[k])
    except Exception as e:  # pylint: disable=broad-except
      require(False, "state-is-serializable",
              f"{case['fam']} k={k}: flax.serialization.to_bytes(state) fails: {type(e).__name__}: {str(e)[:200]}")
    initk, updk, _ = make(case)          # freshly constructed optimizer, fresh closures
    template = initk(p)
    try:
      restored = serialization.from_bytes(template, blob)
    except Exception as e:  # pylint: disable=broad-except
      require(False, "restore-into-fresh-template",
              f"{case['fam']} k={k}: from_bytes into init() of a fresh optimizer fails: {type(e).__name__}: {str(e)[:200]}")
    require(jax.tree.structure(restored) == jax.tree.structure(template), "restored-tree-matches-template",
            f"{case['fam']} k={k}: restored state has a different tree structure from init()'s")
    rb = _bytes_of(restored)
    require(len(rb) == len(state_bytes[k]), "serialization-keeps-every-leaf",
            f"{case['fam']} k={k}: {len(rb)} leaves restored, state has {len(state_bytes[k])}")
    bad = [i for i, (a, b) in enumerate(zip(rb, state_bytes[k])) if a != b]
    if bad:
      paths = [jax.tree_util.keystr(pth) for pth, _ in jax.tree_util.tree_flatten_with_path(states[k])[0]]
      require(False, "serialization-round-trip-identity",
              f"{case['fam']} k={k}: leaf {paths[bad[0]]} changes through to_bytes/from_bytes")
    s = restored
    for c in range(k, T):
      u, s = updk(grads[c], s, p)
      ub = _bytes_of(u)
      if ub != updates[c]:
        names = sorted(params)
        diffs = [n for n, a, b in zip(names, ub, updates[c]) if a != b]
        require(False, "resume-bit-identical",
                f"{case['fam']} resumed at k={k}: update {c} of {diffs} differs from the uninterrupted run")
      sb = _bytes_of(s)
      if sb != state_bytes[c + 1]:
        paths = [jax.tree_util.keystr(pth) for pth, _ in jax.tree_util.tree_flatten_with_path(states[c + 1])[0]]
        i = next(i for i, (a, b) in enumerate(zip(sb, state_bytes[c + 1])) if a != b)
        require(False, "resume-bit-identical",
                f"{case['fam']} resumed at k={k}: state leaf {paths[i]} after update {c} differs from the uninterrupted run")
    o = case["o"]
    start = o.get("start_preconditioning_step", o.get("graft_start", 0))
    interval = o.get("preconditioning_compute_steps", o.get("pfreq", o.get("freq", 1)))
    if 0 < k < T and interval > 1 and 0 < start < T:
      nontrivial = True
  return Result(nontrivial, [f"fam={case['fam']}", f"T={T}"], sub=(T + 1) * (T + 2) // 2)

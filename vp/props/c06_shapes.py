"""C06 — merging, blocking, blockifying and padding are lossless and self-consistent.

Mostly exhaustive small-scope enumeration (complete generator) on index-valued
tensors, plus Hypothesis-generated large irregular shapes.
"""
import itertools
import math

import numpy as np
from hypothesis import strategies as st

from vp.core import Result, require

ID = "C06"
LEVEL = "exploration"
ENV = {"x64": False, "devices": 1}
BUDGET = {"quick": 110, "thorough": 2400}
RULE = (
    "Exhaustive enumeration (itertools.product, split over 16 processes) of: "
    "merge_small_dims on all shapes of rank 0..5 with dims 1..5 (quick; ..6 "
    "thorough) x 9 limits; BlockPartitioner on all shapes rank 0..4 dims 1..4 "
    "(thorough 1..5) x block sizes 0..5; Preconditioner bookkeeping / statistics / "
    "identity preconditioning on shapes rank 0..3 dims 1..4 (+ rank 4 dims 1..3) x "
    "block {0,2,3} x merging {off, 4, 4096} x {ALL,INPUT,OUTPUT} x compression "
    "{0,1,-1}; tearfree _blockify/_deblockify on all admissible shapes of rank "
    "1..4 with dims in {2,3,4,6,8,9} x block {2,3,4}; reshaper merge/unmerge on "
    "shapes rank 0..4 dims 1..4 x merge {2,3,4,6,16,1024} x block {0,2,3,4}; plus "
    "Hypothesis-drawn large irregular shapes (dims up to 300, primes, block "
    "multiples +-1). Tensors are arange(size) so any permutation/loss is "
    "visible. Non-trivial = the shape is actually merged, split into >= 2 blocks "
    "or padded; distinct = the (kind, shape, options) tuple.")
ASSUMPTIONS = [
    "merge_small_dims is specified by the properties in its docstring (product "
    "and order preserved, groups within the limit unless a single dimension, "
    "greedy left-to-right maximality); the doc examples are replayed",
    "compressed identity preconditioner = packed (V = first r unit vectors, e = 1, c = 1)",
]

PTYPES = {"ALL": 1, "INPUT": 2, "OUTPUT": 3}


# ---------------------------------------------------------------- enumeration
def _shapes(max_rank, max_dim, min_rank=0, dims=None):
  dims = dims or list(range(1, max_dim + 1))
  for r in range(min_rank, max_rank + 1):
    for s in itertools.product(dims, repeat=r):
      yield list(s)


def enumerate_cases(shard):
  kind = shard["name"]
  thorough = shard.get("thorough", False)
  if kind == "merge":
    lims = [1, 2, 3, 4, 6, 8, 12, 30, 4096]
    for s in _shapes(5, 6 if thorough else 5):
      for m in lims:
        yield {"kind": "merge", "shape": s, "max_dim": m}
    for s, m in [([1, 2, 512, 1, 2048, 1, 3, 4], 1024), ([1, 2, 768, 1, 2048], 1024)]:
      yield {"kind": "merge", "shape": s, "max_dim": m}
  elif kind == "partition":
    for s in _shapes(4, 5 if thorough else 4):
      for b in [0, 1, 2, 3, 4, 5] + ([6] if thorough else []):
        yield {"kind": "partition", "shape": s, "block": b}
  elif kind == "precond":
    shapes = list(_shapes(3, 4)) + list(_shapes(4, 3, min_rank=4))
    if thorough:
      shapes += [s for s in _shapes(4, 5, min_rank=4, dims=[1, 2, 5, 7])]
    for s in shapes:
      for b in [0, 2, 3]:
        for mrg in [0, 4, 4096]:
          for pt in ["ALL", "INPUT", "OUTPUT"]:
            for cr in [0, 1, -1]:
              yield {"kind": "precond", "shape": s, "block": b, "merge": mrg,
                     "ptype": pt, "rank": cr}
  elif kind == "blockify":
    dims = [2, 3, 4, 6, 8, 9] + ([12] if thorough else [])
    for s in _shapes(4, 0, min_rank=1, dims=dims):
      for b in [2, 3, 4]:
        large = [d for d in s if d >= b]
        if len(large) > 2 or any(d % b for d in large):
          continue
        yield {"kind": "blockify", "shape": s, "block": b}
  elif kind == "reshaper":
    for s in _shapes(4, 5 if thorough else 4):
      for m in [2, 3, 4, 6, 16, 1024]:
        for b in [0, 2, 3, 4]:
          yield {"kind": "reshaper", "shape": s, "merge": m, "block": b}


@st.composite
def _large(draw):
  kind = draw(st.sampled_from(["partition", "reshaper", "merge", "precond"]))
  rank = draw(st.integers(1, 3))
  b = draw(st.sampled_from([2, 3, 7, 16, 32, 50, 128]))
  dim = st.one_of(st.integers(1, 300), st.sampled_from([1, 2, 97, 101, 127, 128, 129, 256, 257]),
                  st.integers(1, 6).map(lambda k: k * b), st.integers(1, 6).map(lambda k: k * b + 1),
                  st.integers(1, 6).map(lambda k: max(1, k * b - 1)))
  shape = [draw(dim) for _ in range(rank)]
  while int(np.prod(shape)) > 200000:
    shape[int(np.argmax(shape))] //= 2
  if kind == "partition":
    return {"kind": kind, "shape": shape, "block": draw(st.sampled_from([0, b, b + 1, 1000]))}
  if kind == "reshaper":
    return {"kind": kind, "shape": shape, "merge": draw(st.sampled_from([2, b, 64, 1024, 4096])),
            "block": draw(st.sampled_from([0, b, 128]))}
  if kind == "merge":
    return {"kind": kind, "shape": shape + [draw(st.integers(1, 5)) for _ in range(draw(st.integers(0, 3)))],
            "max_dim": draw(st.sampled_from([1, b, 64, 1024, 4096, 10**6]))}
  return {"kind": kind, "shape": shape, "block": draw(st.sampled_from([0, b, 128])),
          "merge": draw(st.sampled_from([0, b, 4096])), "ptype": draw(st.sampled_from(list(PTYPES))),
          "rank": draw(st.sampled_from([0, 1, -1, 2, 4]))}


def shards(tier):
  th = tier == "thorough"
  out = [
      {"name": "merge", "exhaustive": True, "workers": 1, "thorough": th},
      {"name": "partition", "exhaustive": True, "workers": 3 if not th else 4, "thorough": th},
      {"name": "precond", "exhaustive": True, "workers": 7 if not th else 6, "thorough": th},
      {"name": "blockify", "exhaustive": True, "workers": 1 if not th else 2, "thorough": th},
      {"name": "reshaper", "exhaustive": True, "workers": 3, "thorough": th},
      {"name": "large", "examples": 120 if not th else 6000, "workers": 1},
  ]
  return out


def strategy(shard):
  return _large()


# ---------------------------------------------------------------- oracles
def _groups_from(shape, merged):
  """Splits shape (ones removed) into consecutive groups whose products are `merged`."""
  dims = [d for d in shape if d != 1]
  groups, i = [], 0
  for target in merged:
    cur, g = 1, []
    while cur != target:
      if i >= len(dims) or cur > target:
        return None
      cur *= dims[i]
      g.append(dims[i])
      i += 1
    groups.append(g)
  if i != len(dims):
    return None
  return groups


def check_merge(shape, max_dim, merged):
  merged = [int(d) for d in merged]
  if shape and all(d == 1 for d in shape):
    require(merged == [1], "merge-all-ones", f"{shape} -> {merged}")
    return False
  require(math.prod(merged) == math.prod(shape), "merge-product", f"{shape},{max_dim} -> {merged}")
  require(all(d > 1 for d in merged), "merge-no-unit-dims", f"{shape},{max_dim} -> {merged}")
  groups = _groups_from(shape, merged)
  require(groups is not None, "merge-order-preserving",
          f"{shape},{max_dim} -> {merged} is not a coarsening of consecutive dims")
  for g, tot in zip(groups, merged):
    require(tot <= max_dim or len(g) == 1, "merge-within-limit",
            f"{shape},{max_dim} -> {merged}: group {g} exceeds the limit")
  for gi in range(len(groups) - 1):
    nxt = groups[gi + 1][0]
    require(merged[gi] * nxt > max_dim, "merge-greedy-maximal",
            f"{shape},{max_dim} -> {merged}: group {groups[gi]} could absorb {nxt}")
  return len(merged) < len([d for d in shape if d != 1])


def _ref_grid(shape, block):
  """Per-axis list of (start, stop) cells."""
  cells = []
  for d in shape:
    if 0 < block < d:
      n = -(-d // block)
      cells.append([(i * block, min((i + 1) * block, d)) for i in range(n)])
    else:
      cells.append([(0, d)])
  return cells


def _index_tensor(shape):
  return np.arange(int(np.prod(shape)) if shape else 1, dtype=np.float32).reshape(shape)


def do_merge(case):
  from precondition import distributed_shampoo as ds
  merged = ds.merge_small_dims(list(case["shape"]), case["max_dim"])
  nt = check_merge(case["shape"], case["max_dim"], merged)
  if case["shape"] == [1, 2, 512, 1, 2048, 1, 3, 4]:
    require(list(merged) == [1024, 2048, 12], "merge-doc-example", str(merged))
  if case["shape"] == [1, 2, 768, 1, 2048]:
    require(list(merged) == [2, 768, 2048], "merge-doc-example", str(merged))
  return nt


def do_partition(case):
  import jax.numpy as jnp
  from precondition import distributed_shampoo as ds
  shape, block = case["shape"], case["block"]
  x = _index_tensor(shape)
  bp = ds.BlockPartitioner(jnp.asarray(x), block)
  cells = _ref_grid(shape, block)
  sizes = [list(map(int, s)) for s in bp.split_sizes()]
  require(sizes == [[b - a for a, b in ax] for ax in cells], "split-sizes",
          f"{shape} block {block}: {sizes}")
  parts = bp.partition(jnp.asarray(x))
  nblocks = math.prod(len(c) for c in cells)
  require(len(parts) == nblocks, "partition-count", f"{shape} block {block}: {len(parts)} vs {nblocks}")
  for i, combo in enumerate(itertools.product(*cells)):
    want = x[tuple(slice(a, b) for a, b in combo)]
    got = np.asarray(parts[i])
    require(got.shape == want.shape and np.array_equal(got, want), "partition-block-content",
            f"{shape} block {block}: block {i} differs from slice {combo}")
    if block > 0:
      require(all(s <= block for s in got.shape), "partition-block-size", f"{got.shape} > {block}")
  back = np.asarray(bp.merge_partitions(parts))
  require(back.shape == x.shape and np.array_equal(back, x), "partition-roundtrip",
          f"{shape} block {block}")
  return nblocks >= 2


def _packed_identity(d, r):
  m = np.zeros((d, r + 2), np.float32)
  m[np.arange(r), np.arange(r)] = 1.0      # eigvecs = first r unit vectors
  m[:r, -2] = 1.0                          # inverted eigvals
  m[0, -1] = 1.0                           # const
  return m


def do_precond(case):
  import jax.numpy as jnp
  from precondition import distributed_shampoo as ds
  shape, block, mrg, cr = case["shape"], case["block"], case["merge"], case["rank"]
  ptype = ds.PreconditionerType(PTYPES[case["ptype"]])
  x = _index_tensor(shape)
  # scale into a well-conditioned range, still injective
  xs = (x + 1.0) / float(x.size)
  pre = ds.Preconditioner(jnp.asarray(xs), block, mrg if mrg else 4096, bool(mrg), ptype, cr)
  tshape = [int(d) for d in ds.merge_small_dims(shape, mrg)] if mrg else list(shape)
  xt = xs.reshape(tshape)
  cells = _ref_grid(tshape, block)
  rank = len(tshape)
  if case["ptype"] == "ALL" or rank <= 1:
    pdims = list(range(rank))
  elif case["ptype"] == "INPUT":
    pdims = list(range(rank - 1))
  else:
    pdims = [rank - 1]
  should = [bool(v) for v in pre.should_precondition_dims()]
  require(should == [i in pdims for i in range(rank)], "should-precondition-dims",
          f"{shape}->{tshape} {case['ptype']}: {should}")
  require(int(pre.exponent_for_preconditioner()) == 2 * len(pdims), "exponent",
          f"{pre.exponent_for_preconditioner()} vs 2*{len(pdims)}")
  want_shapes = []
  blocks = []
  for combo in itertools.product(*cells):
    blk = xt[tuple(slice(a, b) for a, b in combo)]
    blocks.append(blk)
    for ax in pdims:
      d = blk.shape[ax]
      pd = abs(cr) + 2 if (cr and abs(cr) + 2 < d) else d
      want_shapes.append([d, pd])
  got_shapes = [[int(a) for a in s] for s in pre.shapes_for_preconditioners()]
  require(got_shapes == want_shapes, "preconditioner-shapes",
          f"{shape}->{tshape} block {block} {case['ptype']} rank {cr}: {got_shapes} vs {want_shapes}")
  # statistics: one Gram matrix per (block, preconditioned axis), in that order
  zeros = [jnp.zeros((s[0], s[0]), jnp.float32) for s in want_shapes]
  stats = pre.updated_statistics_from_grad(zeros, jnp.asarray(xs), w1=0.0, w2=1.0)
  require(len(stats) == len(want_shapes), "statistics-count", f"{len(stats)} vs {len(want_shapes)}")
  k = 0
  for blk in blocks:
    for ax in pdims:
      m = np.moveaxis(blk.astype(np.float64), ax, 0).reshape(blk.shape[ax], -1)
      gram = m @ m.T
      got = np.asarray(stats[k], np.float64)
      require(got.shape == gram.shape and
              bool(np.all(np.abs(got - gram) <= 1e-5 * max(np.max(np.abs(gram)), 1e-30))),
              "statistics-content", f"{shape}->{tshape} block {block}: statistic {k} is not the Gram matrix of its block/axis")
      k += 1
  # identity preconditioning returns the gradient unchanged
  ident = []
  for d, pd in want_shapes:
    ident.append(jnp.eye(d, dtype=jnp.float32) if pd == d else jnp.asarray(_packed_identity(d, abs(cr))))
  out = np.asarray(pre.preconditioned_grad(jnp.asarray(xs), ident))
  require(out.shape == tuple(shape), "identity-precondition-shape", f"{out.shape} vs {shape}")
  compressed = any(pd != d for d, pd in want_shapes)
  if compressed:
    require(bool(np.all(np.abs(out - xs) <= 1e-5 * np.max(np.abs(xs)))), "identity-precondition",
            f"{shape} block {block} {case['ptype']} rank {cr}: max diff {np.max(np.abs(out - xs)):.3g}")
  else:
    require(bool(np.all(np.abs(out - xs) <= 1e-6 * np.max(np.abs(xs)))), "identity-precondition",
            f"{shape} block {block} {case['ptype']}: max diff {np.max(np.abs(out - xs)):.3g}")
  return len(blocks) >= 2 or tshape != list(shape)


def do_blockify(case):
  import jax.numpy as jnp
  from precondition.tearfree import shampoo
  shape, b = case["shape"], case["block"]
  x = _index_tensor(shape)
  meta = shampoo._blocks_metadata(shampoo.Options(block_size=b), tuple(shape), "t")  # pylint: disable=protected-access
  large = [i for i, d in enumerate(shape) if d >= b]
  per = [shape[i] // b for i in large]
  require(list(meta.block_sizes) == [min(d, b) for d in shape], "blockify-block-sizes", str(meta.block_sizes))
  require(meta.num_blocks == math.prod(per), "blockify-num-blocks", f"{meta.num_blocks} vs {per}")
  bx = np.asarray(shampoo._blockify(jnp.asarray(x), meta))  # pylint: disable=protected-access
  ba = large[0] if large else 0
  want_shape = [min(d, b) for d in shape]
  want_shape.insert(ba, math.prod(per))
  require(list(bx.shape) == want_shape and meta.blocks_axis == ba, "blockify-shape",
          f"{shape} block {b}: {bx.shape} vs {want_shape}, blocks_axis {meta.blocks_axis}")
  for n, combo in enumerate(itertools.product(*[range(k) for k in per])):
    sl = [slice(None)] * len(shape)
    for ax, bi in zip(large, combo):
      sl[ax] = slice(bi * b, (bi + 1) * b)
    want = x[tuple(sl)]
    got = np.take(bx, n, axis=ba)
    require(np.array_equal(got, want), "blockify-block-content",
            f"{shape} block {b}: block {n} is not the sub-tensor {combo}")
  back = np.asarray(shampoo._deblockify(jnp.asarray(bx), meta))  # pylint: disable=protected-access
  require(back.shape == x.shape and np.array_equal(back, x), "blockify-roundtrip", f"{shape} block {b}")
  return math.prod(per) >= 2


def do_reshaper(case):
  import jax.numpy as jnp
  from precondition import distributed_shampoo as ds
  from precondition.tearfree import reshaper
  shape, m, b = case["shape"], case["merge"], case["block"]
  x = _index_tensor(shape) + 1.0
  opts = reshaper.Options(merge_dims=m, block_size=b)
  params = {"w": jnp.zeros(shape, jnp.float32)}
  upd = {"w": jnp.asarray(x)}
  mt = reshaper.merge(opts)
  ut = reshaper.unmerge(opts)
  merged, _ = mt.update(upd, mt.init(params), params)
  mg = np.asarray(merged["w"])
  mshape = [int(d) for d in ds.merge_small_dims(shape, m)]
  check_merge(shape, m, mshape)
  if mshape == [1]:
    mshape = []
  want_pad = [(-(-d // b) * b if (b and d >= b) else d) for d in mshape]
  require(list(mg.shape) == want_pad, "reshaper-padded-shape",
          f"{shape} merge {m} block {b}: {mg.shape} vs {want_pad}")
  for d in mg.shape:
    require(not b or d < b or d % b == 0, "reshaper-block-multiple", f"{mg.shape} block {b}")
  core_idx = tuple(slice(0, d) for d in mshape)
  require(np.array_equal(mg[core_idx], x.reshape(mshape)), "reshaper-content",
          f"{shape} merge {m} block {b}: real entries changed")
  mask = np.ones(mg.shape, bool)
  mask[core_idx] = False
  require(not np.any(mg[mask]), "reshaper-zero-padding", "padding is not zero")
  back, _ = ut.update(merged, ut.init(params), params)
  back = np.asarray(back["w"])
  require(back.shape == x.shape and np.array_equal(back, x), "reshaper-roundtrip",
          f"{shape} merge {m} block {b}")
  return want_pad != list(shape)


def interpret_exception(exc, tb):
  from vp import core
  frame = core.innermost_repo_frame(tb)
  if frame is not None:
    return "no-crash", f"{type(exc).__name__}: {str(exc)[:160]} in {frame}"
  return None


def check(case):
  fn = {"merge": do_merge, "partition": do_partition, "precond": do_precond,
        "blockify": do_blockify, "reshaper": do_reshaper}[case["kind"]]
  nt = fn(case)
  return Result(nt, [f"kind={case['kind']}", f"rank={len(case['shape'])}"])

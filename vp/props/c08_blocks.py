"""C08 — block-diagonal semantics: blocks and parameters do not influence each other."""
import itertools

import numpy as np
from hypothesis import strategies as st

from vp import dsh
from vp.core import Result, require

ID = "C08"
LEVEL = "exploration"
ENV = {"x64": True, "devices": 1}
BUDGET = {"quick": 120, "thorough": 2400}
TRACE_CASES = True      # expensive cases: record the case in flight so a hang can be named
RULE = (
    "Hypothesis-built block layouts (1 or 2 blocked axes, 2..4 blocks per axis, "
    "block size 2..4, Distributed Shampoo also with a ragged last block, Tearfree "
    "ragged through its zero padding) with per-block gradient scales drawn "
    "independently from 10^[-6,6], companion parameters of arbitrary rank / shape "
    "/ scale (changing the global padding size), histories of 1..5 steps, options "
    "over Newton/eigh, epsilon, decay, momentum, grafting. Differential oracle on "
    "the real code: (i) blocked tensor vs its blocks as separate parameters, (ii) "
    "a parameter alone vs with companions. Non-trivial = block scales span >= 1e3 "
    "or a companion changes the largest statistic size; distinct = hash of the case.")
ASSUMPTIONS = [
    "merging of dimensions is disabled so block shapes are not re-interpreted",
    "with grafting NONE the slices must agree to 2e-5 of the block's max-abs "
    "(differently shaped compiled programs; float64 roots under x64); with a "
    "grafting type only positive collinearity per block is required (the "
    "parameter-level norm is the one coupling the property allows)",
]


@st.composite
def _case(draw, fams):
  fam = draw(st.sampled_from(fams))
  B = draw(st.sampled_from([2, 3, 4]))
  n1 = draw(st.integers(2, 4))
  two = draw(st.booleans())
  n2 = draw(st.integers(2, 3)) if two else 0
  other = draw(st.integers(1 if fam == "ds" else 2, B - 1 if B > 2 else 2)) if not two else 0
  if fam != "ds" and not two:
    other = min(other, B - 1) if B > 2 else 0   # tearfree: the unblocked axis must stay below the block size
    if other < 2:
      two, n2 = True, 2
  ragged = draw(st.integers(0, B - 1)) if (draw(st.booleans()) and fam != "tfs") else 0
  # an optional small (unblocked) axis between the two blocked axes: rank-3 layouts
  mid = draw(st.sampled_from([0, 0, 2, B - 1])) if (two and B >= 3) else 0
  if mid < 2:
    mid = 0
  nblocks = (n1 + (1 if ragged else 0)) * (n2 if two else 1)
  scales = [draw(st.sampled_from([0, 0, -6, -3, -1, 1, 3, 6])) for _ in range(nblocks)]
  ncomp = draw(st.sampled_from([0, 1, 1, 2]))
  comps = []
  for _ in range(ncomp):
    r = draw(st.integers(1, 3))
    if fam == "ds":
      shape = [draw(st.integers(1, 7)) for _ in range(r)]
    else:
      shape = [draw(st.sampled_from([2, 3, B, 2 * B])) for _ in range(max(r, 1))]
    comps.append({"shape": shape, "exp": draw(st.sampled_from([0, -4, 4]))})
  t = draw(st.integers(1, 5))
  steps = [{"seed": draw(st.integers(0, 2**16)), "kind": draw(st.sampled_from(["dense", "dense", "sparse", "lowrank"]))}
           for _ in range(t)]
  o = {"graft": draw(st.sampled_from(["NONE", "NONE", "SGD", "RMSPROP", "ADAGRAD"])),
       "eigh": draw(st.booleans()), "eps": draw(st.sampled_from([1e-2, 1e-3, 1e-4])),
       "beta2": draw(st.sampled_from([0.9, 0.99, 1.0])), "beta1": draw(st.sampled_from([0.0, 0.9])),
       "start": draw(st.sampled_from([0, 1])), "nesterov": draw(st.booleans()),
       "ptype": draw(st.sampled_from(["ALL", "ALL", "INPUT", "OUTPUT"])),
       "sharded": draw(st.booleans()) if fam == "ds" else False}
  if o["sharded"]:
    # the sharded variant applies the previous step's preconditioners: needs >= 2 steps to show anything,
    # and the exact block-equality clause needs grafting NONE
    if draw(st.booleans()):
      o["graft"] = "NONE"
    if len(steps) < 2:
      steps = steps + [{"seed": steps[0]["seed"] + 1, "kind": "dense"}]
  return {"fam": fam, "B": B, "n1": n1, "n2": n2, "other": other, "ragged": ragged, "mid": mid, "scales": scales,
          "companions": comps, "steps": steps, "o": o}


def shards(tier):
  q = tier == "quick"
  return [{"name": "ds", "examples": 9 * (19 if q else 300), "workers": 9, "fams": ["ds"]},
          {"name": "tearfree", "examples": 7 * (22 if q else 300), "workers": 7, "fams": ["tfs", "tf"]}]


def strategy(shard):
  return _case(shard["fams"])


def interpret_exception(exc, tb):
  from vp import core
  frame = core.innermost_repo_frame(tb)
  if frame is not None:
    return "update-runs", f"{type(exc).__name__}: {str(exc)[:200]} in {frame}"
  return None


# ------------------------------------------------------------------ layout
def layout(case):
  """Returns (tensor shape, list of (slices, block_shape))."""
  B, n1, n2, other, ragged = case["B"], case["n1"], case["n2"], case["other"], case["ragged"]
  d0 = B * n1 + ragged
  cells0 = [(i * B, (i + 1) * B) for i in range(n1)] + ([(B * n1, d0)] if ragged else [])
  if n2:
    d1 = B * n2
    cells1 = [(j * B, (j + 1) * B) for j in range(n2)]
  else:
    d1 = other
    cells1 = [(0, other)]
  mid = case.get("mid", 0)
  if mid:
    shape = (d0, mid, d1)
    blocks = [(slice(a, b), slice(None), slice(c, d)) for (a, b), (c, d) in itertools.product(cells0, cells1)]
  else:
    shape = (d0, d1)
    blocks = [(slice(a, b), slice(c, d)) for (a, b), (c, d) in itertools.product(cells0, cells1)]
  return shape, blocks


def gradients(case, shape, blocks):
  out = []
  for spec in case["steps"]:
    g = dsh.grad_np({"kind": spec["kind"], "seed": spec["seed"], "exp": 0}, shape)
    if spec["kind"] == "lowrank":
      g = g + 0.1 * dsh.grad_np({"kind": "dense", "seed": spec["seed"] + 1, "exp": 0}, shape)
    for k, sl in enumerate(blocks):
      g[sl] *= 10.0 ** case["scales"][k]
    comps = [dsh.grad_np({"kind": "dense", "seed": spec["seed"] + 7 + j, "exp": c["exp"]}, tuple(c["shape"]))
             for j, c in enumerate(case["companions"])]
    out.append((g, comps))
  return out


def _close(a, b, rtol):
  a, b = np.asarray(a, np.float64), np.asarray(b, np.float64)
  scale = max(float(np.max(np.abs(a), initial=0.0)), float(np.max(np.abs(b), initial=0.0)), 1e-300)
  return float(np.max(np.abs(a - b), initial=0.0)) / scale


# ------------------------------------------------------------------ optimizers
def _ds_opt(case):
  o = case["o"]
  return dsh.make_opt({"block_size": case["B"], "beta1": o["beta1"], "beta2": o["beta2"], "matrix_epsilon": o["eps"],
                       "start_preconditioning_step": o["start"], "graft_type": o["graft"], "eigh": o["eigh"],
                       "nesterov": o["nesterov"], "best_effort_shape_interpretation": False,
                       "precondtioner_type": o["ptype"], "lr": 0.5},
                      "sharded" if o.get("sharded") else "plain", 1)


def _tf_opt(case, full):
  from precondition.tearfree import grafting, momentum, optimizer, second_order, shampoo
  o = case["o"]
  sh = shampoo.Options(block_size=case["B"], second_moment_decay=o["beta2"])
  if not full:
    return shampoo.apply(sh)
  so = second_order.Options(merge_dims=2, second_order_type=second_order.SecondOrderType.SHAMPOO, shampoo_options=sh)
  gname = {"NONE": "none", "SGD": "sgd", "RMSPROP": "rmsprop", "ADAGRAD": "rmsprop"}[o["graft"]]
  go = grafting.Options(grafting_type=grafting.GraftingType(gname),
                        second_moment_decay=0.0 if gname in ("none", "sgd") else 0.99,
                        start_preconditioning_step=o["start"], skip_preconditioning_rank1=False)
  mo = momentum.Options(momentum_decay=o["beta1"], nesterov=o["nesterov"], ema=False)
  return optimizer.tearfree(0.5, optimizer.TearfreeOptions(go, so, mo))


def _run(opt, params, grads_seq):
  import jax
  import jax.numpy as jnp
  import contextlib
  p = {k: jnp.asarray(np.asarray(v, np.float32)) for k, v in params.items()}
  ctx = contextlib.nullcontext()
  state = opt.init(p)
  if hasattr(state, "init_fn"):         # sharded variant: InitFnState, runs under a device mesh
    from jax.sharding import Mesh
    ctx = Mesh(np.array(jax.devices()[:1]), ("x",))
    with ctx:
      state = state.init_fn(p)
  outs = []
  gate = []            # per step: [(root error figure, max |statistic|)] over every statistic of the run
  with ctx:
    upd = jax.jit(opt.update)
    for gd in grads_seq:
      g = {k: jnp.asarray(np.asarray(v, np.float32)) for k, v in gd.items()}
      u, state = upd(g, state, p)
      outs.append({k: np.asarray(v, np.float64) for k, v in u.items()})
      gate.append(_gate_figures(state))
  _run.gate = gate
  return outs, state


def _gate_figures(state):
  """(error figure, max |statistic|) per Distributed Shampoo statistic; [] for other optimizers."""
  out = []
  stats = getattr(state, "stats", None)
  if stats is None:
    return out
  if hasattr(stats, "global_stats"):
    mats = [np.asarray(m, np.float64) for m in stats.global_stats.statistics]
    for loc in stats.local_stats.values():
      errs = np.asarray(loc.training_metrics.inverse_pth_root_errors, np.float64).reshape(-1)
      i0 = int(loc.index_start)
      for j, e in enumerate(errs):
        if i0 + j < len(mats):
          out.append((float(e), float(np.max(np.abs(mats[i0 + j]), initial=0.0))))
  elif isinstance(stats, dict):
    for loc in stats.values():
      tm = getattr(loc, "training_metrics", None)
      if tm is None or not hasattr(tm, "inverse_pth_root_errors"):
        continue
      errs = np.asarray(tm.inverse_pth_root_errors, np.float64).reshape(-1)
      for e, m in zip(errs, loc.statistics):
        out.append((float(e), float(np.max(np.abs(np.asarray(m, np.float64)), initial=0.0))))
  return out


_U32 = 2.0 ** -24
_GATE = 0.1             # inverse_failure_threshold default


def _eigh_gate_at_rounding_level(case, gates, upto):
  """True iff a root was refused in one of the runs `gates` at a step <= upto and EVERY refusal is one the eigh
  path's absolute error figure |u^T A u - diag(e)| produces from float32 rounding of the statistic alone
  (figure <= 64 u32 max|A|): there the accept / reject decision is decided by rounding, which differs between
  two compiled programs, so the two runs are not comparable (counted ambiguous, never a pass for a figure a
  rounding-level perturbation cannot explain)."""
  if not case["o"].get("eigh"):
    return False
  refused = [(e, m) for g in gates for step in g[:upto + 1] for e, m in step if not e <= _GATE]
  return bool(refused) and all(np.isfinite(e) and e <= 64 * _U32 * m for e, m in refused)


def check(case):
  import jax
  shape, blocks = layout(case)
  fam = case["fam"]
  o = case["o"]
  seq = gradients(case, shape, blocks)
  rng = np.random.default_rng(5)
  x0 = rng.standard_normal(shape)
  comp0 = [rng.standard_normal(tuple(c["shape"])) for c in case["companions"]]
  grafted = o["graft"] != "NONE"
  if fam == "tfs":
    grafted = False            # shampoo.apply alone has no grafting / momentum
  if fam != "ds" and case["ragged"]:
    # tearfree pads the ragged axis with zeros; the equivalent separate parameters are the padded blocks
    B = case["B"]
    pad = B - case["ragged"]
    full_shape = (shape[0] + pad,) + tuple(shape[1:])
    pblocks = [(slice(sl[0].start, sl[0].start + B),) + tuple(sl[1:]) for sl in blocks]
  else:
    pad = 0
    full_shape = shape
    pblocks = blocks

  def padded(a):
    return np.pad(a, ((0, pad),) + ((0, 0),) * (a.ndim - 1)) if pad else a

  opt_a = _ds_opt(case) if fam == "ds" else _tf_opt(case, fam == "tf")
  # A: the blocked tensor alone
  outs_a, state_a = _run(opt_a, {"x": x0}, [{"x": g} for g, _ in seq])
  gate_a = _run.gate
  span = max(case["scales"]) - min(case["scales"])
  base_classes = [f"fam={fam}" + ("-sharded" if o.get("sharded") else ""), "rank3" if case.get("mid") else "rank2",
                  "two-axes" if case["n2"] else "one-axis", "ragged" if case["ragged"] else "even",
                  "grafted" if grafted else "ungrafted", f"span=1e{span}"]
  amb = Result(False, base_classes + ["eigh-gate-at-rounding-level"], ambiguous=True)
  # B: its blocks as separate parameters
  pb = {f"b{k:02d}": padded(x0)[sl] for k, sl in enumerate(pblocks)}
  gb = [{f"b{k:02d}": padded(g)[sl] for k, sl in enumerate(pblocks)} for g, _ in seq]
  opt_b = _ds_opt(case) if fam == "ds" else _tf_opt(case, fam == "tf")
  outs_b, _ = _run(opt_b, pb, gb)
  gate_b = _run.gate
  worst = 0.0
  for c in range(len(seq)):
    ua = padded(outs_a[c]["x"])
    for k, sl in enumerate(pblocks):
      a, b = ua[sl], outs_b[c][f"b{k:02d}"]
      real = (slice(0, blocks[k][0].stop - blocks[k][0].start),) + (slice(None),) * (len(shape) - 1)
      a, b = a[real], b[real]
      tag = (f"{fam} step {c} block {k} (scale 1e{case['scales'][k]}, scales {case['scales']}, B={case['B']}, "
             f"graft {o['graft']}, ptype {o['ptype']})")
      require(np.all(np.isfinite(a)) and np.all(np.isfinite(b)), "finite", tag)
      if not grafted:
        r = _close(a, b, 2e-5)
        if r > 2e-5 and fam == "ds" and _eigh_gate_at_rounding_level(case, [gate_a, gate_b], c):
          return amb
        worst = max(worst, r / 2e-5)
        require(r <= 2e-5, "blocked-equals-separate-blocks",
                f"{tag}: relative difference {r:.3g} between the block's slice of the blocked update and the "
                f"update of the block as its own parameter (|slice| {np.max(np.abs(a)):.3g}, |separate| {np.max(np.abs(b)):.3g})")
      else:
        na, nb = np.linalg.norm(a), np.linalg.norm(b)
        if o["beta1"] == 0.0 and c >= o["start"]:
          if nb == 0 or na == 0:
            require(na == 0 or nb == 0 or True, "collinear", tag)
            require((na == 0) == (nb == 0) or not np.any(seq[c][0][blocks[k]]), "block-direction-collinear",
                    f"{tag}: one of the two updates vanishes (|slice| {na:.3g}, |separate| {nb:.3g})")
          else:
            cs = float(np.dot(a.ravel(), b.ravel()) / (na * nb))
            if cs < 1 - 1e-5 and fam == "ds" and _eigh_gate_at_rounding_level(case, [gate_a, gate_b], c):
              return amb
            require(cs >= 1 - 1e-5, "block-direction-collinear",
                    f"{tag}: cos(slice of blocked update, separate update) = {cs:.6f}")
  # B': the last block entirely on its own (its statistics are then not padded to a larger sibling's size)
  if fam == "ds" and not grafted:
    k = len(pblocks) - 1
    sl = pblocks[k]
    opt_d = _ds_opt(case)
    outs_d, _ = _run(opt_d, {"b": padded(x0)[sl]}, [{"b": padded(g)[sl]} for g, _ in seq])
    gate_d = _run.gate
    for c in range(len(seq)):
      a, b = padded(outs_a[c]["x"])[sl], outs_d[c]["b"]
      r = _close(a, b, 2e-5)
      if r > 2e-5 and _eigh_gate_at_rounding_level(case, [gate_a, gate_d], c):
        return amb
      worst = max(worst, r / 2e-5)
      require(r <= 2e-5, "blocked-equals-separate-blocks",
              f"{fam}{'-sharded' if o.get('sharded') else ''} step {c} last block {k} alone (shape {a.shape}, B={case['B']}, "
              f"scales {case['scales']}): relative difference {r:.3g} between its slice of the blocked update and "
              f"its update as the only parameter")
  # C: with companions
  changed_max = False
  if case["companions"]:
    pc = {"x": x0}
    pc.update({f"c{j}": v for j, v in enumerate(comp0)})
    gc = []
    for g, comps in seq:
      d = {"x": g}
      d.update({f"c{j}": v for j, v in enumerate(comps)})
      gc.append(d)
    opt_c = _ds_opt(case) if fam == "ds" else _tf_opt(case, fam == "tf")
    try:
      outs_c, state_c = _run(opt_c, pc, gc)
    except ValueError:
      outs_c = None        # tearfree rejects some companion shapes (unit dims, > 2 large dims)
    gate_c = _run.gate
    if outs_c is not None:
      for c in range(len(seq)):
        r = _close(outs_a[c]["x"], outs_c[c]["x"], 2e-5)
        if r > 2e-5 and fam == "ds" and _eigh_gate_at_rounding_level(case, [gate_a, gate_c], c):
          return amb
        worst = max(worst, r / 2e-5)
        require(r <= 2e-5, "parameter-independent-of-companions",
                f"{fam} step {c}: update of the parameter changes by {r:.3g} (relative) when companions "
                f"{[cc['shape'] for cc in case['companions']]} are present")
      if fam == "ds" and not o.get("sharded"):
        # diagnostics (iteration counts, error figures) legitimately depend on the padded problem size
        la = jax.tree.leaves(state_a.stats["x"]._replace(training_metrics=None))
        lc = jax.tree.leaves(state_c.stats["x"]._replace(training_metrics=None))
        require(len(la) == len(lc), "parameter-state-independent-of-companions", "state leaf count differs")
        for a, b in zip(la, lc):
          if np.asarray(a).dtype.kind == "f" and np.asarray(a).size and np.all(np.isfinite(np.asarray(a))):
            require(_close(a, b, 2e-5) <= 2e-5, "parameter-state-independent-of-companions",
                    f"ds: a state leaf of the parameter differs by {_close(a, b, 1):.3g} with companions present")
      if fam == "ds":
        changed_max = max([max(cc["shape"]) for cc in case["companions"]]) > case["B"]
  classes = base_classes
  return Result(span >= 3 or changed_max, classes, metrics={"tolerance_ratio": worst}, sub=len(seq))

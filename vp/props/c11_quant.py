"""C11 — quantised state round-trips within half a bucket and never wraps.

Oracle: pure NumPy float64 arithmetic on the float32 inputs; the code under
test is only called through QuantizedValue.from_float_value / to_float.
"""
import numpy as np
from hypothesis import strategies as st

from vp.core import Result, require

ID = "C11"
LEVEL = "exploration"
ENV = {"x64": False, "devices": 1}
BUDGET = {"quick": 75, "thorough": 1200}
RULE = (
    "Hypothesis-built float32 tensors of rank 1..3: per column (index over the "
    "trailing axes) a drawn kind {random, constant, zero, spike, maxmag, "
    "alternating, halfway, ints} at a drawn binary exponent in -149..127, or raw "
    "st.floats(width=32) arrays; x dtype {int8,int16,bfloat16,float32} x "
    "extract_diagonal (square matrices) x eager/jit. Non-trivial = integer dtype "
    "and at least one normal-range column (max-abs >= N*2^-126) holding >= 2 "
    "distinct non-zero magnitudes; distinct = hash of the whole case.")
ASSUMPTIONS = [
    "XLA CPU flushes subnormals to zero: columns with max-abs < N*2^-126 get a "
    "zero bucket; the half-bucket clause carries the additive underflow term "
    "N*FLT_MIN of the flush-to-zero float model and such cases are counted as "
    "'underflow-regime' (trivial).",
    "half-bucket slack: B/2*(1+8*N*2^-24) + 2 ulp32(max) (float32 evaluation of "
    "bucket size, ratio and product).",
]

F32_MIN = float(np.finfo(np.float32).tiny)
EPS32 = 2.0 ** -24
NBUCKETS = {"int8": 127, "int16": 32767}
KINDS = ["random", "constant", "zero", "spike", "maxmag", "alternating",
         "halfway", "ints"]


# ---------------------------------------------------------------- strategies
def _col():
  return st.fixed_dictionaries({
      "kind": st.sampled_from(KINDS),
      "exp": st.one_of(st.integers(-149, 127), st.integers(-6, 6),
                       st.sampled_from([-149, -140, -127, -126, -125, -112,
                                        -111, 120, 126, 127])),
      "seed": st.integers(0, 2**16),
  })


@st.composite
def _structured(draw):
  rank = draw(st.sampled_from([1, 2, 2, 2, 3]))
  dtype = draw(st.sampled_from(["int8", "int8", "int16", "int16", "bfloat16",
                                "float32"]))
  diag = False
  if rank == 2 and draw(st.booleans()):
    n = draw(st.integers(1, 6))
    shape = [n, n]
    diag = True
  else:
    shape = [draw(st.integers(1, 6 if rank < 3 else 4)) for _ in range(rank)]
  ncols = int(np.prod(shape[1:])) if rank > 1 else 1
  cols = draw(st.lists(_col(), min_size=ncols, max_size=ncols))
  return {"mode": "structured", "shape": shape, "dtype": dtype, "diag": diag,
          "jit": draw(st.booleans()), "cols": cols}


@st.composite
def _raw(draw):
  rank = draw(st.sampled_from([1, 2, 2, 3]))
  dtype = draw(st.sampled_from(["int8", "int16", "int16", "bfloat16"]))
  diag = False
  if rank == 2 and draw(st.booleans()):
    n = draw(st.integers(1, 4))
    shape = [n, n]
    diag = True
  else:
    shape = [draw(st.integers(1, 4)) for _ in range(rank)]
  size = int(np.prod(shape))
  fl = st.floats(width=32, allow_nan=False, allow_infinity=False)
  vals = draw(st.lists(fl, min_size=size, max_size=size))
  return {"mode": "raw", "shape": shape, "dtype": dtype, "diag": diag,
          "jit": draw(st.booleans()), "vals": vals}


@st.composite
def _optstate(draw):
  nleaves = draw(st.sampled_from([1, 2]))
  shapes = [[draw(st.sampled_from([2, 3, 4, 5])) for _ in range(draw(st.sampled_from([2, 2, 3])))] for _ in range(nleaves)]
  return {"mode": "optstate", "shapes": shapes,
          "interval": draw(st.sampled_from([1, 2, 3])), "sinterval": draw(st.sampled_from([1, 2])),
          "block": draw(st.sampled_from([2, 3, 128])), "beta1": draw(st.sampled_from([0.0, 0.9])),
          "graft": draw(st.sampled_from(["SGD", "RMSPROP", "ADAGRAD"])),
          "reuse": draw(st.booleans()),
          "steps": draw(st.lists(st.fixed_dictionaries({
              "kind": st.sampled_from(["dense", "dense", "sparse", "zero", "lowrank"]),
              "exp": st.sampled_from([0, 0, -3, 3]), "seed": st.integers(0, 2**16)}), min_size=2, max_size=7))}


def shards(tier):
  n = 1300 if tier == "quick" else 40000
  return [
      {"name": "structured", "examples": n * 10, "workers": 10},
      {"name": "raw", "examples": n * 4, "workers": 4},
      {"name": "optstate", "examples": 2 * (22 if tier == "quick" else 500), "workers": 2},
  ]


def strategy(shard):
  if shard["name"] == "optstate":
    return _optstate()
  return _structured() if shard["name"] == "structured" else _raw()


def check_optstate(case):
  """Quantised state inside the optimizer (pmap + memory reduction): no wrap, no drift of carried state."""
  import jax
  import jax.numpy as jnp
  from precondition import quantization_utils as qu
  from vp import dsh
  shapes = [tuple(s) for s in case["shapes"]]
  names = [f"p{i}" for i in range(len(shapes))]
  o = {"block_size": case["block"], "beta1": case["beta1"], "start_preconditioning_step": 1,
       "preconditioning_compute_steps": case["interval"], "statistics_compute_steps": case["sinterval"],
       "graft_type": case["graft"], "best_effort_memory_usage_reduction": True, "matrix_epsilon": 1e-3,
       "reuse_preconditioner": case["reuse"], "best_effort_shape_interpretation": False}
  opt = dsh.make_opt(o, "pmap")
  params = dsh.params_from(shapes)
  p1 = jax.tree.map(lambda x: x[None], params)
  state = jax.pmap(opt.init, axis_name="batch")(p1)
  upd = jax.pmap(opt.update, axis_name="batch")
  hist = dsh.history_np(case["steps"], shapes)

  def qleaves(st_):
    out = []
    for n in names:
      ps = jax.tree.map(lambda x: x[0], st_.stats[n])
      for kind, lst in (("statistics", ps.statistics), ("preconditioners", ps.preconditioners),
                        ("momentum", [ps.momentum]), ("diagonal_momentum", [ps.diagonal_momentum])):
        for j, q in enumerate(lst):
          if isinstance(q, qu.QuantizedValue) and np.asarray(q.quantized).dtype in (np.int8, np.int16):
            out.append((f"{n}.{kind}[{j}]", kind, q))
    return out

  prev = qleaves(state)
  nq = len(prev)
  for t, gs in enumerate(hist):
    g = jax.tree.map(lambda x: x[None], dsh.to_tree(gs))
    _, state = upd(g, state, p1)
    cur = qleaves(state)
    require(len(cur) == nq, "optstate-quantised-leaf-count", f"{len(cur)} vs {nq}")
    for (lab, kind, q0), (_, _, q1) in zip(prev, cur):
      qi = np.asarray(q1.quantized).astype(np.int64)
      nb = 127 if qi.dtype == np.int64 and np.asarray(q1.quantized).dtype == np.int8 else 32767
      require(int(qi.min(initial=0)) >= -nb and int(qi.max(initial=0)) <= nb, "optstate-no-wrap",
              f"step {t} {lab}: stored range [{qi.min()},{qi.max()}]")
      f1 = np.asarray(q1.to_float())
      require(bool(np.all(np.isfinite(f1))), "optstate-finite", f"step {t} {lab}")
      carried = (kind == "preconditioners" and t % case["interval"] != 0) or \
                (kind == "statistics" and t % case["sinterval"] != 0)
      if carried:
        require(f1.tobytes() == np.asarray(q0.to_float()).tobytes(), "optstate-carried-state-does-not-drift",
                f"step {t} {lab}: dequantised value changed although this state was only carried")
      # (Re-quantisation idempotence is only asserted for direct calls: inside a
      # compiled update XLA may evaluate the statistic twice with different
      # rounding, so the payload's diagonal is x - x' = 1 ulp instead of 0.)
    prev = cur
  return Result(len(hist) > case["interval"] and nq > 0, ["optstate", f"interval={case['interval']}"], sub=len(hist))


# ---------------------------------------------------------------- building
def _column(spec, n):
  rng = np.random.default_rng(spec["seed"])
  e = spec["exp"]
  k = spec["kind"]
  scale = np.ldexp(1.0, e)
  if k == "random":
    v = rng.uniform(-1, 1, n) * scale * 1.999
  elif k == "constant":
    v = np.full(n, (1.0 + rng.integers(0, 2**23) / 2**23) * scale)
    if spec["seed"] % 2:
      v = -v
  elif k == "zero":
    v = np.zeros(n)
  elif k == "spike":
    v = np.zeros(n)
    v[rng.integers(0, n)] = (1.0 + rng.integers(0, 2**23) / 2**23) * scale * (-1) ** (spec["seed"] % 2)
  elif k == "maxmag":
    v = np.full(n, (2.0 - 2.0**-23) * scale) * rng.choice([-1.0, 1.0], n)
  elif k == "alternating":
    v = (2.0 - 2.0**-23) * scale * np.array([(-1.0) ** i for i in range(n)])
    v = v * rng.choice([1.0, 0.5, 0.25], n)
  elif k == "halfway":
    # entries at exact half-bucket positions relative to a max of `scale`
    nb = 127 if spec["seed"] % 2 else 32767
    ks = rng.integers(-nb, nb, n) + 0.5
    v = ks * (scale / nb)
    v[rng.integers(0, n)] = scale
  else:  # ints
    v = rng.integers(-200, 200, n).astype(np.float64) * scale
  with np.errstate(over="ignore", under="ignore"):
    v32 = v.astype(np.float32)
  v32 = np.where(np.isfinite(v32), v32, np.float32(np.finfo(np.float32).max) * np.sign(v32))
  return v32.astype(np.float32)


def build(case):
  shape = case["shape"]
  if case["mode"] == "raw":
    return np.array(case["vals"], dtype=np.float32).reshape(shape)
  n = shape[0]
  cols = [_column(c, n) for c in case["cols"]]
  x = np.stack(cols, axis=1).reshape(shape) if len(shape) > 1 else cols[0]
  return np.ascontiguousarray(x, dtype=np.float32)


def _bf16_round(x):
  bits = x.astype(np.float32).view(np.uint32).astype(np.uint64)
  bias = 0x7FFF + ((bits >> 16) & 1)
  out = ((bits + bias) & 0xFFFF0000).astype(np.uint32)
  return out.view(np.float32)


_JIT = {}


def _roundtrip(x, dtype, diag, use_jit):
  import jax
  import jax.numpy as jnp
  from precondition import quantization_utils as qu
  jdt = {"int8": jnp.int8, "int16": jnp.int16, "bfloat16": jnp.bfloat16,
         "float32": jnp.float32}[dtype]

  def f(v):
    q = qu.QuantizedValue.from_float_value(v, jdt, diag)
    return q.quantized, q.diagonal, q.bucket_size, q.to_float()

  if use_jit:
    key = (dtype, diag)
    if key not in _JIT:
      _JIT[key] = jax.jit(f)
    f = _JIT[key]
  quant, dg, bs, deq = f(jnp.asarray(x))
  return (np.asarray(quant), np.asarray(dg) if not isinstance(dg, list) else None,
          np.asarray(bs) if not isinstance(bs, list) else None, np.asarray(deq))


def _requant(deq, dtype, diag):
  import jax.numpy as jnp
  from precondition import quantization_utils as qu
  jdt = {"int8": jnp.int8, "int16": jnp.int16}[dtype]
  q = qu.QuantizedValue.from_float_value(jnp.asarray(deq), jdt, diag)
  return np.asarray(q.quantized), np.asarray(q.bucket_size)


# ---------------------------------------------------------------- check
def check(case):
  if case["mode"] == "optstate":
    return check_optstate(case)
  x = build(case)
  dtype, diag = case["dtype"], case["diag"]
  quant, dg, bs, deq = _roundtrip(x, dtype, diag, case["jit"])
  require(deq.shape == x.shape, "shape", f"{deq.shape} vs {x.shape}")
  classes = [f"dtype={dtype}", f"rank={x.ndim}", f"diag={diag}", f"jit={case['jit']}"]
  if dtype == "float32":
    require(deq.dtype == np.float32 and deq.tobytes() == x.tobytes(),
            "float32-exact", "float32 path is not the identity")
    return Result(False, classes)
  if dtype == "bfloat16":
    require(deq.dtype == np.float32, "bf16-dtype", str(deq.dtype))
    normal = np.abs(x) >= F32_MIN
    want = _bf16_round(x)
    ok = (deq == want) | ~normal
    # overflow of the rounding to inf is what a bfloat16 cast does
    require(bool(np.all(ok | (np.isinf(want) & np.isinf(deq)))), "bf16-exact-cast",
            f"x={x[~ok][:3]} got={deq[~ok][:3]} want={want[~ok][:3]}")
    return Result(False, classes)

  nb = NBUCKETS[dtype]
  x64 = x.astype(np.float64)
  require(quant.dtype == np.dtype(dtype), "stored-dtype", str(quant.dtype))
  F32_MAX = float(np.finfo(np.float32).max)
  # never the unused most-negative value
  qi = quant.astype(np.int64)
  require(int(qi.min(initial=0)) >= -nb and int(qi.max(initial=0)) <= nb,
          "no-wrap", f"stored range [{qi.min()},{qi.max()}] outside [-{nb},{nb}]",
          stored_min=int(qi.min(initial=0)))
  off = x64.copy()
  if diag:
    require(dg is not None and dg.tobytes() == np.diag(x).tobytes() or
            np.array_equal(dg, np.diag(x)), "diag-stored", "stored diagonal differs")
    np.fill_diagonal(off, 0.0)
    require(np.all(np.diag(qi) == 0), "diag-payload-zero",
            f"integer payload has non-zero diagonal {np.diag(qi)}")
    dx, dd = np.diag(x), np.diag(deq)
    # flush-to-zero platform: a subnormal diagonal entry may come back as 0
    okd = (dd == dx) | ((np.abs(dx) < F32_MIN) & (dd == 0))
    require(bool(np.all(okd)), "diag-exact",
            f"diagonal not reproduced exactly: {dd} vs {dx}")
  m = np.max(np.abs(off), axis=0)          # per column
  # Known finding KF-C11-1: a column whose max-abs is exactly FLT_MAX gets
  # bucket = fl(FLT_MAX/N) rounded up, and N*bucket overflows to inf.  Those
  # columns are checked for everything else and reported under their own clause.
  fltmax_col = np.broadcast_to(m == F32_MAX, deq.shape)
  nonfinite = ~np.isfinite(deq)
  require(not np.any(nonfinite & ~fltmax_col), "finite", "dequantised value not finite")
  overflow_at_fltmax = bool(np.any(nonfinite & fltmax_col))
  if overflow_at_fltmax:
    deq = np.where(nonfinite & fltmax_col, x, deq)
  bucket = m / nb
  ulp_m = np.spacing(m.astype(np.float32)).astype(np.float64)
  allowed = bucket / 2 * (1 + 8 * nb * EPS32) + 2 * ulp_m + nb * F32_MIN
  target = x64
  err = np.abs(deq.astype(np.float64) - target)
  if diag:
    np.fill_diagonal(err, 0.0)
  ratio = err / np.broadcast_to(allowed, err.shape)
  worst = float(ratio.max(initial=0.0))
  if worst > 1.0:
    idx = np.unravel_index(np.argmax(ratio), ratio.shape)
    raise_detail = (f"|deq-x|={err[idx]:.6g} > allowed={np.broadcast_to(allowed, err.shape)[idx]:.6g} "
                    f"(bucket={np.broadcast_to(bucket, err.shape)[idx]:.6g}) at {idx}, x={x[idx]!r} deq={deq[idx]!r}")
    require(False, "half-bucket", raise_detail, ratio=worst)
  # zeros reproduced exactly
  z = (off == 0.0)
  if diag:
    z = z & ~np.eye(x.shape[0], dtype=bool)
  require(bool(np.all(deq[z] == 0.0)), "zeros-exact", "a zero entry did not dequantise to 0")
  # stored bucket size is the documented max/N (float32)
  normal_col = m >= nb * F32_MIN
  if bs is not None and np.any(normal_col):
    rel = np.abs(bs.astype(np.float64) - bucket)[normal_col] / bucket[normal_col]
    require(float(rel.max()) <= 4 * EPS32, "bucket-size",
            f"stored bucket differs from max/N by rel {rel.max():.3g}")
  # idempotence: re-quantising the dequantised tensor gives the same integers
  q2, bs2 = _requant(deq, dtype, diag)
  require(np.array_equal(q2.astype(np.int64), qi), "idempotent",
          f"re-quantised integers differ at {int(np.sum(q2 != quant))} entries")
  drift = 0.0
  if np.any(normal_col):
    drift = float((np.abs(bs2.astype(np.float64) - bs.astype(np.float64))[normal_col]
                   / np.spacing(bs[normal_col]).astype(np.float64)).max())
    require(drift <= 2.0, "bucket-drift", f"bucket size drifts by {drift} ulp on re-quantisation")
  # non-triviality
  nontrivial = False
  offa = np.abs(off)
  cols2d = offa.reshape(offa.shape[0], -1)
  mc = m.reshape(-1)
  for j in range(cols2d.shape[1]):
    if mc[j] >= nb * F32_MIN:
      nz = np.unique(cols2d[:, j][cols2d[:, j] > 0])
      if len(nz) >= 2:
        nontrivial = True
        break
  if overflow_at_fltmax:
    require(False, "finite-at-FLT_MAX-column",
            "column max-abs == FLT_MAX: N*fl(FLT_MAX/N) overflows, dequantised entry is inf")
  classes.append("regime=normal" if np.any(normal_col) else "regime=underflow-or-zero")
  if case["mode"] == "structured":
    classes += sorted({"kind=" + c["kind"] for c in case["cols"]})
  return Result(nontrivial, classes,
                metrics={"halfbucket_ratio": worst, "bucket_drift_ulp": drift})

"""C07 — state contract: shapes preserved, layout stable, every accepted config runs."""
import numpy as np
from hypothesis import strategies as st

from vp import dsh
from vp.core import Result, Violation, require

ID = "C07"
LEVEL = "exploration"
ENV = {"x64": False, "devices": 1}
BUDGET = {"quick": 120, "thorough": 2400}
TRACE_CASES = True      # expensive cases: record the case in flight so a hang can be named
RULE = (
    "Hypothesis-built option records over every distributed_shampoo argument "
    "(incl. compression +-r, frequent directions with/without reuse, gradient "
    "averaging, reset, LOBPCG, INPUT/OUTPUT, block size 0/1/-1, skip thresholds, "
    "metrics on/off, FD metrics, memory reduction, pmap axis name, sharded with "
    "num_devices 1..4), sm3 options and tearfree option records x parameter trees "
    "of 0..3 leaves with ranks 0..4 and unit dimensions x 1..3 updates; each "
    "configuration is traced with jax.eval_shape (runs every Python-level branch, "
    "assert and shape computation) and a subset is really executed under jit and "
    "as a lax.scan carry. Non-trivial = constructor accepted, >= 2 options differ "
    "from the defaults and at least one update runs at/after the start step; "
    "distinct = hash of the case.")
ASSUMPTIONS = [
    "explicit explanatory rejection = ValueError/NotImplementedError/TypeError "
    "raised by a raise statement inside precondition/**, or an assert inside "
    "precondition/** that carries a message; bare asserts, UnboundLocalError, "
    "IndexError, KeyError, AttributeError and errors raised from inside "
    "jax/numpy/optax (shape, cond-branch or scan-carry mismatches) are internal errors",
    "x64 off (the configuration the sharded shape/dtype declarations are written for)",
]


# ------------------------------------------------------------------ strategies
def _shape():
  dim = st.sampled_from([1, 1, 2, 3, 4, 5, 7])
  return st.integers(0, 4).flatmap(lambda r: st.lists(dim, min_size=r, max_size=r))


@st.composite
def _ds_opts(draw):
  o = {}
  def maybe(key, strat, prob=0.35):
    if draw(st.floats(0, 1)) < prob:
      o[key] = draw(strat)
  maybe("block_size", st.sampled_from([1, 2, 3, 4, 8, 0]), 0.7)
  maybe("beta1", st.sampled_from([0.0, 0.5]))
  maybe("beta2", st.sampled_from([0.9, 1.0, 0.5]))
  maybe("matrix_epsilon", st.sampled_from([0.0, 1e-3]))
  maybe("weight_decay", st.sampled_from([0.01]))
  maybe("start_preconditioning_step", st.sampled_from([0, 1, 2]), 0.8)
  maybe("preconditioning_compute_steps", st.sampled_from([2, 3]))
  maybe("statistics_compute_steps", st.sampled_from([2, 3]))
  maybe("best_effort_shape_interpretation", st.just(False))
  maybe("graft_type", st.sampled_from(dsh.GRAFTS), 0.7)
  maybe("nesterov", st.just(False))
  maybe("exponent_override", st.sampled_from([1, 2, 3]))
  maybe("best_effort_memory_usage_reduction", st.just(True))
  maybe("moving_average_for_momentum", st.just(True))
  maybe("skip_preconditioning_dim_size_gt", st.sampled_from([2, 3, 6]))
  maybe("clip_by_scaled_gradient_norm", st.sampled_from([1.0]), 0.15)
  maybe("relative_matrix_epsilon", st.just(False))
  maybe("merge_small_dims_block_size", st.sampled_from([1, 4, 16]))
  maybe("lobpcg_topk_precondition", st.sampled_from([1, 2]), 0.1)
  maybe("precondtioner_type", st.sampled_from(["INPUT", "OUTPUT"]), 0.4)
  maybe("skip_preconditioning_rank_lt", st.sampled_from([2, 3]), 0.3)
  maybe("decoupled_learning_rate", st.just(False))
  maybe("decoupled_weight_decay", st.just(True))
  maybe("generate_training_metrics", st.just(False))
  maybe("reuse_preconditioner", st.just(True))
  maybe("eigh", st.just(True))
  maybe("lr_sched", st.just({"every": 2}), 0.25)
  maybe("decay_preconditioning_compute_steps", st.just(True), 0.2)
  if o.get("decay_preconditioning_compute_steps"):
    maybe("end_preconditioning_compute_steps", st.sampled_from([10, 20]), 0.8)
  maybe("compression_rank", st.sampled_from([1, -1, 2, -2]), 0.35)
  if o.get("compression_rank", 0) > 0 and draw(st.floats(0, 1)) < 0.6:
    o["frequent_directions"] = True
    # by construction statistics and preconditioner cadence agree (the constructor demands it)
    s = o.get("preconditioning_compute_steps", 1)
    if s == 1:
      o.pop("statistics_compute_steps", None)
    else:
      o["statistics_compute_steps"] = s
    if draw(st.floats(0, 1)) < 0.9:
      o["reuse_preconditioner"] = True   # the constructor demands it for frequent directions
    maybe("average_grad", st.just(True), 0.5)
    maybe("reset_preconditioner", st.just(True), 0.3)
    maybe("generate_fd_metrics", st.just(True), 0.3)
  # occasionally draw an option combination the constructor documents as invalid
  if draw(st.floats(0, 1)) < 0.04:
    o[draw(st.sampled_from(["average_grad", "reset_preconditioner", "frequent_directions"]))] = True
  return o


@st.composite
def _tf_opts(draw):
  so = draw(st.sampled_from(["shampoo", "sketchy"]))
  o = {"second_order": so,
       "merge_dims": draw(st.sampled_from([2, 4, 16, 1024])),
       "graft": draw(st.sampled_from(["none", "sgd", "rmsprop", "adafactor"])),
       "graft_start": draw(st.sampled_from([0, 1, 2])),
       "skip_rank1": draw(st.booleans()),
       "skip_gt": draw(st.sampled_from([4096, 3, 6])),
       "ema": draw(st.booleans()), "nesterov": draw(st.booleans()),
       "momentum_decay": draw(st.sampled_from([0.0, 0.9])),
       "weight_decay": draw(st.sampled_from([0.0, 0.01])),
       "wd_after": draw(st.booleans()),
       "lr_sched": draw(st.booleans())}
  if so == "shampoo":
    o.update(block_size=draw(st.sampled_from([2, 3, 4, 8])),
             pfreq=draw(st.sampled_from([1, 2])), sfreq=draw(st.sampled_from([1, 2])),
             decay=draw(st.sampled_from([0.9, 1.0])))
  else:
    o.update(rank=draw(st.sampled_from([1, 2, 3, 8])), add_ggt=draw(st.booleans()),
             ekfac_svd=draw(st.booleans()), linear_approx_tail=draw(st.booleans()),
             relative_epsilon=draw(st.booleans()), freq=draw(st.sampled_from([1, 2])),
             decay=draw(st.sampled_from([0.9, 1.0])))
  return o


@st.composite
def _case(draw, opts):
  fam = draw(st.sampled_from(opts))
  nleaves = draw(st.sampled_from([0, 1, 1, 2, 2, 3]))
  shapes = [draw(_shape()) for _ in range(nleaves)]
  case = {"opt": fam, "shapes": shapes, "steps": draw(st.integers(1, 3)),
          "exec": draw(st.sampled_from([False] * 7 + [True]))}
  if fam == "ds":
    case["mode"] = draw(st.sampled_from(["plain", "plain", "pmap", "sharded"]))
    case["o"] = draw(_ds_opts())
    if case["mode"] == "sharded":
      case["devices"] = draw(st.integers(1, 4))
      if not shapes:
        # the sharded helpers are specified for a non-empty parameter tree
        case["shapes"] = [draw(_shape())]
      if case["o"].get("block_size", 128) <= 0:
        # the sharded variant also uses block_size as the size of its padding
        # statistics when nothing is preconditioned; 0 ("no blocking") is not
        # meaningful there
        case["o"]["block_size"] = 4
  elif fam == "sm3":
    case["o"] = {"beta1": draw(st.sampled_from([0.0, 0.9])), "beta2": draw(st.sampled_from([0.999, 1.0])),
                 "weight_decay": draw(st.sampled_from([0.0, 0.1])), "normalize_grads": draw(st.booleans()),
                 "lr_sched": draw(st.booleans())}
  else:
    case["o"] = draw(_tf_opts())
  return case


def shards(tier):
  q = tier == "quick"
  return [
      {"name": "ds", "examples": 12 * (210 if q else 3000), "workers": 12, "opts": ["ds"]},
      {"name": "tearfree", "examples": 3 * (200 if q else 2500), "workers": 3, "opts": ["tearfree"]},
      {"name": "sm3", "examples": 1 * (150 if q else 1500), "workers": 1, "opts": ["sm3"]},
  ]


def strategy(shard):
  return _case(shard["opts"])


def worker_init(task):
  import jax
  jax.config.update("jax_traceback_filtering", "off")


# ------------------------------------------------------------------ exception policy
EXPLICIT_TYPES = (ValueError, NotImplementedError, TypeError)


def classify_exception(exc, tb):
  """Returns ('explicit', where) or ('internal', where)."""
  import traceback
  frames = traceback.extract_tb(tb)
  inner = frames[-1] if frames else None
  in_repo = inner is not None and "/precondition/" in inner.filename and "/verif/" not in inner.filename
  where = f"{inner.filename.split('/')[-1]}:{inner.name}:{inner.lineno}" if inner else "?"
  if in_repo and isinstance(exc, EXPLICIT_TYPES):
    return "explicit", where
  if in_repo and isinstance(exc, AssertionError) and str(exc).strip():
    return "explicit", where
  return "internal", where


class Rejected(Exception):
  pass


def guarded(stage, fn, *a, **k):
  """Calls repo code; explicit rejections -> Rejected, anything else -> Violation."""
  import sys
  try:
    return fn(*a, **k)
  except Violation:
    raise
  except Exception as exc:  # pylint: disable=broad-except
    tb = sys.exc_info()[2]
    kind, where = classify_exception(exc, tb)
    if kind == "explicit":
      raise Rejected(f"{stage}: {type(exc).__name__}: {str(exc)[:120]}") from None
    # find the innermost frame inside the repository for the bucket
    from vp import core
    repo_frame = core.innermost_repo_frame(tb) or where
    raise Violation(f"internal-error@{repo_frame}|{type(exc).__name__}",
                    f"{stage}: {type(exc).__name__}: {str(exc)[:300]} (raised at {where})",
                    {"stage": stage, "exc": type(exc).__name__, "frame": repo_frame}) from None


# ------------------------------------------------------------------ building
def build_optimizer(case):
  import optax
  o = case["o"]
  if case["opt"] == "ds":
    return dsh.make_opt(o, case["mode"], case.get("devices", 1))
  if case["opt"] == "sm3":
    from precondition import sm3
    lr = (lambda c: 0.1 / (1.0 + c)) if o["lr_sched"] else 0.1
    return sm3.sm3(lr, beta1=o["beta1"], beta2=o["beta2"], weight_decay=o["weight_decay"],
                   normalize_grads=o["normalize_grads"])
  from precondition.tearfree import grafting, momentum, optimizer, second_order, shampoo, sketchy
  if o["second_order"] == "shampoo":
    so = second_order.Options(
        merge_dims=o["merge_dims"], second_order_type=second_order.SecondOrderType.SHAMPOO,
        shampoo_options=shampoo.Options(block_size=o["block_size"], update_preconditioners_freq=o["pfreq"],
                                        update_statistics_freq=o["sfreq"], second_moment_decay=o["decay"]))
  else:
    so = second_order.Options(
        merge_dims=o["merge_dims"], second_order_type=second_order.SecondOrderType.SKETCHY,
        shampoo_options=None,
        sketchy_options=sketchy.Options(rank=o["rank"], add_ggt=o["add_ggt"], ekfac_svd=o["ekfac_svd"],
                                        linear_approx_tail=o["linear_approx_tail"],
                                        relative_epsilon=o["relative_epsilon"], update_freq=o["freq"],
                                        second_moment_decay=o["decay"]))
  gt = grafting.GraftingType(o["graft"])
  go = grafting.Options(
      grafting_type=gt,
      second_moment_decay={"none": 0.0, "sgd": 0.0, "rmsprop": 0.999, "adafactor": 0.9}[o["graft"]],
      start_preconditioning_step=o["graft_start"], skip_preconditioning_any_dim_gt=o["skip_gt"],
      skip_preconditioning_rank1=o["skip_rank1"], min_dim_size_to_factor=2)
  mo = momentum.Options(ema=o["ema"], nesterov=o["nesterov"], momentum_decay=o["momentum_decay"],
                        weight_decay=o["weight_decay"], weight_decay_after_momentum=o["wd_after"])
  lr = optax.linear_schedule(0.1, 0.01, 10) if o["lr_sched"] else 0.1
  return optimizer.tearfree(lr, optimizer.TearfreeOptions(go, so, mo))


def _max_stat_size(o, shapes):
  import jax.numpy as jnp
  from precondition import distributed_shampoo as ds
  mx = 0
  for s in shapes:
    if len(s) < o.get("skip_preconditioning_rank_lt", 1) or any(
        d > o.get("skip_preconditioning_dim_size_gt", 4096) for d in s):
      continue
    pre = ds.Preconditioner(jnp.zeros(s), o.get("block_size", 128), o.get("merge_small_dims_block_size", 4096),
                            o.get("best_effort_shape_interpretation", True),
                            ds.PreconditionerType[o.get("precondtioner_type", "ALL")])
    for sh in pre.shapes_for_preconditioners():
      mx = max(mx, int(sh[0]))
  return mx


def _sds(tree):
  import jax
  return jax.tree.map(lambda x: jax.ShapeDtypeStruct(x.shape, x.dtype), tree)


def _add_axis(tree):
  import jax
  return jax.tree.map(lambda x: jax.ShapeDtypeStruct((1,) + tuple(x.shape), x.dtype), tree)


def _decl_leaf(x):
  return isinstance(x, list) and len(x) == 2 and isinstance(x[0], (list, tuple)) and not isinstance(x[1], (list, tuple))


def check_sharded_declarations(fns, params, state):
  """init_fn state, shape_and_dtype_fn and pspec_fn describe one and the same tree."""
  import jax
  from jax.sharding import PartitionSpec as P
  decl = guarded("shape_and_dtype_fn", fns.shape_and_dtype_fn, params)
  pps = jax.tree.map(lambda x: P(*([None] * len(x.shape))), params)
  pspec = guarded("pspec_fn", fns.pspec_fn, params, pps, P("x", None, None))
  s_leaves, s_def = jax.tree.flatten(state)
  d_leaves, d_def = jax.tree.flatten(decl, is_leaf=_decl_leaf)
  p_leaves, p_def = jax.tree.flatten(pspec, is_leaf=lambda x: isinstance(x, P) or x is None)
  require(d_def == s_def, "sharded-declared-shapes-treedef",
          f"shape/dtype declaration tree differs from the real state tree:\\n{d_def}\\nvs\\n{s_def}")
  require(p_def == s_def, "sharded-pspec-treedef",
          f"partition-spec tree differs from the real state tree:\\n{p_def}\\nvs\\n{s_def}")
  paths = [jax.tree_util.keystr(p) for p, _ in jax.tree_util.tree_flatten_with_path(state)[0]]
  for path, real, d in zip(paths, s_leaves, d_leaves):
    require(_decl_leaf(d), "sharded-declaration-leaf", f"{path}: {d!r}")
    require(tuple(d[0]) == tuple(real.shape), f"sharded-declared-shape@{_leafname(path)}",
            f"{path}: declared {list(d[0])} but init creates {list(real.shape)}")
    require(np.dtype(d[1]) == np.dtype(real.dtype), f"sharded-declared-dtype@{_leafname(path)}",
            f"{path}: declared {np.dtype(d[1])} but init creates {np.dtype(real.dtype)}")


def check(case):
  import jax
  import jax.numpy as jnp
  shapes = [tuple(s) for s in case["shapes"]]
  o = case["o"]
  classes = [f"opt={case['opt']}"]
  if case["opt"] == "ds":
    classes.append(f"mode={case['mode']}")
    for key in ("frequent_directions", "average_grad", "best_effort_memory_usage_reduction", "eigh"):
      if o.get(key):
        classes.append(key)
    if o.get("compression_rank"):
      classes.append("compressed")
    if o.get("precondtioner_type"):
      classes.append("ptype=" + o["precondtioner_type"])
  try:
    opt = guarded("constructor", build_optimizer, case)
  except Rejected as r:
    return Result(False, classes + ["constructor-rejected"], key=None)
  params = dsh.params_from(shapes)
  sparams = _sds(params)
  if case["opt"] == "ds" and o.get("lobpcg_topk_precondition", 0):
    # jax's lobpcg_standard needs matrix dim > 5 * k; Distributed Shampoo pads
    # every statistic to the largest one, so the requirement is on that size.
    # Smaller trees are outside the documented use of the option.
    if _max_stat_size(o, shapes) <= 5 * o["lobpcg_topk_precondition"]:
      return Result(False, classes + ["out-of-domain:lobpcg-needs-n>5k"])
  hist = dsh.history_np([{"kind": "dense", "seed": 17 + i} for i in range(case["steps"])], shapes)
  mode = case.get("mode", "plain")
  try:
    if mode == "sharded":
      from jax.sharding import Mesh
      fns = guarded("init", opt.init, None)
      mesh = Mesh(np.array(jax.devices()[:1]), ("x",))
      with mesh:
        state0 = _sds(guarded("init", fns.init_fn, params))
        check_sharded_declarations(fns, params, state0)
        upd_fn = opt.update
        state = state0
        for k in range(case["steps"]):
          out = guarded(f"update{k}", jax.eval_shape, upd_fn, sparams, state, sparams)
          _check_step(case, params, state0, out, k)
          state = out[1]
        if case["exec"] and shapes:
          _execute(case, opt, params, hist, mesh, fns.init_fn)
    else:
      if mode == "pmap":
        state0 = _sds(guarded("init", opt.init, params))
        f = jax.pmap(opt.update, axis_name="batch")
        st0, pr, gr = _add_axis(state0), _add_axis(params), _add_axis(params)
        state = st0
        for k in range(case["steps"]):
          out = guarded(f"update{k}", jax.eval_shape, f, gr, state, pr)
          _check_step(case, _add_axis(params), st0, out, k)
          state = out[1]
      else:
        state0 = _sds(guarded("init", opt.init, params))
        state = state0
        for k in range(case["steps"]):
          out = guarded(f"update{k}", jax.eval_shape, opt.update, sparams, state, sparams)
          _check_step(case, params, state0, out, k)
          state = out[1]
      if case["exec"] and shapes:
        _execute(case, opt, params, hist, None, opt.init)
  except Rejected as r:
    return Result(False, classes + ["rejected:" + str(r).split(":")[0]])
  ndiff = len(o)
  start = o.get("start_preconditioning_step", 5) if case["opt"] == "ds" else o.get("graft_start", 0)
  nontrivial = ndiff >= 2 and case["steps"] > start and len(shapes) > 0
  classes.append("executed" if case["exec"] else "shape-only")
  return Result(nontrivial, classes, sub=case["steps"])


def _paths(tree):
  import jax
  return [jax.tree_util.keystr(p) for p, _ in jax.tree_util.tree_flatten_with_path(tree)[0]]


def _leafname(path):
  import re
  names = re.findall(r"\.([A-Za-z_]+)", path)
  return ".".join(names[-2:]) if names else path


def same_layout(a, b):
  """None if a and b have the same tree structure, leaf shapes and dtypes, else (kind, what)."""
  import jax
  la, ta = jax.tree.flatten(a)
  lb, tb = jax.tree.flatten(b)
  if ta != tb:
    pa, pb = _paths(a), _paths(b)
    diff = [x for x in pa if x not in set(pb)] + [x for x in pb if x not in set(pa)]
    what = _leafname(diff[0]) if diff else "static-metadata"
    return "treedef", what, (diff[:2] if diff else f"{ta} vs {tb}"[:400])
  for path, x, y in zip(_paths(a), la, lb):
    if tuple(x.shape) != tuple(y.shape) or np.dtype(x.dtype) != np.dtype(y.dtype):
      return "leaf", _leafname(path), f"{path}: {tuple(x.shape)} {x.dtype} -> {tuple(y.shape)} {y.dtype}"
  return None


def _check_step(case, params, state0, out, k):
  upd, state = out
  bad = same_layout(params, upd)
  require(bad is None, "update-tree-matches-params",
          f"update differs from the parameters in layout: {bad}")
  bad = same_layout(state0, state)
  if bad is not None:
    raise Violation(f"state-layout-stable@{bad[1]}", f"after update {k + 1}: {bad[0]} changed: {bad[2]}",
                    {"what": bad[1]})


def _execute(case, opt, params, hist, mesh, init_fn):
  import contextlib
  import jax
  import jax.numpy as jnp
  ctx = mesh if mesh is not None else contextlib.nullcontext()
  with ctx:
    if case.get("mode") == "pmap":
      state = jax.pmap(lambda p: opt.init(p), axis_name="batch")(jax.tree.map(lambda x: x[None], params))
      f = jax.pmap(opt.update, axis_name="batch")
      p1 = jax.tree.map(lambda x: x[None], params)
      for gs in hist:
        g = jax.tree.map(lambda x: x[None], dsh.to_tree(gs))
        upd, new_state = guarded("exec-update", f, g, state, p1)
        bad = same_layout(state, new_state)
        require(bad is None, f"state-layout-stable@{bad[1] if bad else ''}",
                f"executed pmap update changed the state layout: {bad}")
        state = new_state
      return
    state0 = guarded("exec-init", init_fn, params)
    grads = [dsh.to_tree(gs) for gs in hist]
    stacked = jax.tree.map(lambda *xs: jnp.stack(xs), *grads) if grads else None

    def body(st, g):
      u, st2 = opt.update(g, st, params)
      return st2, u

    def run(st, gs):
      return jax.lax.scan(body, st, gs)
    final, ups = guarded("exec-scan", jax.jit(run), state0, stacked)
    bad = same_layout(state0, final)
    require(bad is None, f"state-layout-stable@{bad[1] if bad else ''}",
            f"state after lax.scan differs in layout from the initial state: {bad}")
    for name, p in params.items():
      u = ups[name]
      require(tuple(u.shape) == (len(hist),) + tuple(p.shape) and u.dtype == p.dtype,
              "update-tree-matches-params", f"{name}: executed update {u.shape} {u.dtype}")

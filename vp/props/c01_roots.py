"""C01 — inverse p-th root is accurate and its reported error is honest."""
import numpy as np
from hypothesis import strategies as st

from vp.core import Result, Violation, require

ID = "C01"
LEVEL = "exploration"
ENV = {"x64": True, "devices": 1}
BUDGET = {"quick": 90, "thorough": 1500}
K_SLACK = 256.0
U64 = 2.0 ** -53
EPS32 = 2.0 ** -24
RULE = (
    "Hypothesis-built PSD matrices A = Q diag(l) Q' * scale (Haar Q from a drawn "
    "seed): n in 1..12 (thorough ..40, sizes 1,2,3 over-weighted), rank 1..n, "
    "spectrum shape {geometric, clustered, two-level, dominant}, regularised "
    "condition number 10^[0,8] placed by construction (ridge drawn first), scale "
    "10^[-6,6] and 1e-8 (lambda_max below power_iteration's exit tolerance), identity padding 0..4 via pad_square_matrix, p in 1..8, ridge "
    "epsilon in {0 (full rank only), 1e-12..1e-2}, relative/absolute ridge, "
    "routine {Newton, eigh, Newton+LOBPCG k in 1..2}; float64 under x64 plus a "
    "float32 structural shard. Non-trivial = reported error < 0.1, n >= 2 and one "
    "of {rank-deficient, padded, kappa >= 1e4, p not in {2,4}, scale outside "
    "[1e-2,1e2]}; distinct = hash of the case.")
ASSUMPTIONS = [
    "rounding slack K*n*p*u*kappa with K=256 (calibrated: worst observed ratio "
    "is reported as metrics_max.slack_ratio); relative Newton mode adds 8*2^-24 "
    "because the ridge is reconstructed from the float32-rounded max_eigen_value",
    "the ridge actually used is reconstructed from the returned metrics "
    "(max_eigen_value, total_retries); for eigh in relative mode (no such metric) "
    "it is the least-squares scalar d fitting X^p(A+dI)=I, required to be <= "
    "eps*lambda_max(A) up to rounding",
    "float32 shard checks structure only (finite, symmetric, zero padding, "
    "eigenvalue estimate, non-negative error) for kappa <= 1e6",
]

SHAPES = ["geometric", "clustered", "twolevel", "dominant"]


@st.composite
def _case(draw, max_n, f32, routines=("newton", "newton", "eigh", "eigh", "lobpcg"), rels=(True, False)):
  routine = draw(st.sampled_from(list(routines)))
  k = 0
  if routine == "lobpcg":
    k = draw(st.sampled_from([1, 1, 2]))
    n = draw(st.integers(5 * k + 1, max(max_n, 5 * k + 1)))
  else:
    n = draw(st.one_of(st.sampled_from([1, 2, 3]), st.integers(1, max_n)))
  pad = draw(st.sampled_from([0, 0, 1, 2, 4]))
  rank = draw(st.one_of(st.just(n), st.integers(1, n)))
  rel = draw(st.sampled_from(list(rels)))
  if rank < n:
    eps_rel = 10.0 ** draw(st.integers(-8 if not f32 else -6, -2))
  else:
    eps_rel = draw(st.sampled_from([0.0, 1e-12, 1e-10, 1e-8, 1e-6, 1e-6, 1e-4, 1e-2]))
    if f32:
      eps_rel = max(eps_rel, 1e-6) if eps_rel else 0.0
  log_kappa = draw(st.floats(0.0, 6.0 if f32 else 8.0))
  return {
      "n": n, "pad": pad, "p": draw(st.integers(1, 8)), "routine": routine, "k": k,
      "rel": rel, "eps_rel": eps_rel, "rank": rank,
      "shape": draw(st.sampled_from(SHAPES)), "log_kappa": round(log_kappa, 2),
      # "any scale": -8 puts lambda_max below power_iteration's absolute exit tolerance (1e-6), where the
      # estimate is the start vector's Rayleigh quotient after a single step
      "log_scale": draw(st.sampled_from([-8, -6, -3, -1, 0, 0, 1, 3, 6])),
      "seed": draw(st.integers(0, 2**16)), "f32": f32,
      "allpad": draw(st.sampled_from([False] * 15 + [True])),
  }


def shards(tier):
  """One (routine, ridge mode) pair per worker keeps the number of jit compiles per process small."""
  combos = [("newton", True, 3), ("newton", False, 2), ("eigh", True, 2), ("eigh", False, 2),
            ("lobpcg", True, 2), ("lobpcg", False, 2)]
  out = []
  per = 900 if tier == "quick" else 14000
  max_n = 12 if tier == "quick" else 16
  for routine, rel, w in combos:
    out.append({"name": f"x64-{routine}-{'rel' if rel else 'abs'}", "examples": per * w, "workers": w,
                "max_n": max_n, "f32": False, "routines": [routine], "rels": [rel]})
  for routine in ("newton", "eigh", "lobpcg"):
    out.append({"name": f"f32-{routine}", "examples": per // 2, "workers": 1, "max_n": max_n, "f32": True,
                "routines": [routine], "rels": [True, False], "env": {"x64": False}})
  if tier == "thorough":
    for routine in ("newton", "eigh"):
      out.append({"name": f"x64-large-{routine}", "examples": 1500, "workers": 1, "max_n": 40, "f32": False,
                  "routines": [routine], "rels": [True, False]})
  return out


def case_env(case):
  return {"x64": False} if case.get("f32") else {}


def strategy(shard):
  return _case(shard["max_n"], shard["f32"], tuple(shard["routines"]), tuple(shard["rels"]))


def build(case):
  """Returns (A unpadded float64, ridge_epsilon argument)."""
  n, rank = case["n"], case["rank"]
  rng = np.random.default_rng(case["seed"])
  q, _ = np.linalg.qr(rng.standard_normal((n, n)))
  eps_rel = case["eps_rel"]
  kappa = 10.0 ** case["log_kappa"]
  # smallest non-zero eigenvalue (largest is 1) so that (1+eps)/(lmin+eps) ~ kappa
  if rank == n:
    lo = (1 + eps_rel) / kappa - eps_rel
    if lo <= 0:
      lo = 1.0 / kappa
    lo = min(lo, 1.0)
  else:
    lo = min(1.0, max(1e-3, 1.0 / kappa))
  m = rank
  sh = case["shape"]
  if m == 1:
    l = np.array([1.0])
  elif sh == "geometric":
    l = lo ** (np.arange(m) / (m - 1))
  elif sh == "clustered":
    l = np.where(np.arange(m) < (m + 1) // 2, 1.0, lo) * (1 + 0.01 * rng.random(m))
    l[0] = 1.0
    l[-1] = lo
  elif sh == "twolevel":
    l = np.where(np.arange(m) < 1, 1.0, lo) * np.ones(m)
  else:  # dominant: one big, rest spread log-uniform
    l = np.concatenate([[1.0], lo ** rng.random(m - 1)])
    l[-1] = lo
  full = np.concatenate([l, np.zeros(n - m)])
  scale = 10.0 ** case["log_scale"]
  a = (q * full) @ q.T * scale
  a = (a + a.T) / 2
  eps_arg = eps_rel if case["rel"] else eps_rel * scale
  return a, float(eps_arg)


_JIT = {}


def _root_fn(n_total, rel, routine, k):
  import jax
  from precondition import distributed_shampoo as ds
  key = (n_total, rel, routine, k)
  if key not in _JIT:
    def f(mat, p, eps, ps):
      return ds.matrix_inverse_pth_root(
          mat, p, ridge_epsilon=eps, relative_matrix_epsilon=rel,
          padding_start=ps, eigh=(routine == "eigh"),
          lobpcg_topk_precondition=k)
    _JIT[key] = jax.jit(f)
  return _JIT[key]


def interpret_exception(exc, tb):
  from vp import core
  frame = core.innermost_repo_frame(tb)
  if frame is not None:
    return "returns-a-root", f"{type(exc).__name__}: {str(exc)[:200]} in {frame}"
  return None


def check(case):
  import jax.numpy as jnp
  from precondition import distributed_shampoo as ds
  n, pad, p = case["n"], case["pad"], case["p"]
  f32 = case["f32"]
  dt = np.float32 if f32 else np.float64
  a, eps_arg = build(case)
  a = a.astype(dt).astype(np.float64)       # the matrix the routine really sees
  a = (a + a.T) / 2
  nt = n + pad
  ps = n
  if case["allpad"]:
    mat = np.eye(nt, dtype=dt)
    ps = 0
  else:
    mat = np.asarray(ds.pad_square_matrix(jnp.asarray(a.astype(dt)), nt))
  fn = _root_fn(nt, case["rel"], case["routine"], case["k"])
  x, metrics = fn(jnp.asarray(mat), jnp.asarray(p, jnp.int32), jnp.asarray(eps_arg, dt),
                  jnp.asarray(ps, jnp.int32))
  x = np.asarray(x)
  err = float(np.asarray(metrics.inverse_pth_root_errors))
  require(x.shape == (nt, nt) and x.dtype == dt, "shape-dtype", f"{x.shape} {x.dtype}")
  classes = [f"routine={case['routine']}", "f32" if f32 else "f64",
             "rel" if case["rel"] else "abs", f"pad={'y' if pad else 'n'}"]
  if case["allpad"]:
    require(not np.any(x), "all-padding-zero", "all-padding matrix did not give X = 0")
    require(err == 0.0, "all-padding-error", f"all-padding error {err}")
    return Result(False, classes + ["allpad"])
  require(np.isnan(err) or err >= 0, "error-nonnegative", f"error {err}")
  lam = np.linalg.eigvalsh(a)
  lmax = float(lam[-1])
  x64 = x.astype(np.float64)
  if err < 0.5 or case["routine"] != "lobpcg":
    # Newton and eigh must return a finite matrix whatever the error figure is;
    # the LOBPCG-deflated variant only when its error figure is acceptable
    # (jax's lobpcg_standard yields NaN when the matrix rank is below k, and the
    # NaN error figure then makes the optimizer keep the old preconditioner).
    require(bool(np.all(np.isfinite(x))), "finite",
            f"non-finite entries (reported error {err})")
  if np.all(np.isfinite(x)):       # (an all-NaN LOBPCG result, rejected through its NaN error, has no zero pattern)
    require(not np.any(x[ps:, :]) and not np.any(x[:, ps:]), "padding-zero",
            "non-zero entry on a padding row/column")
  # eigenvalue estimate never above the true largest eigenvalue
  mev = float(np.asarray(metrics.max_eigen_value))
  if case["rel"] and case["routine"] in ("newton", "lobpcg"):
    # float64 runs: only the final cast to float32 rounds; float32 runs: the
    # Rayleigh quotient itself carries ~n float32 roundings.
    mev_tol = (4 + 4 * n) * EPS32 if f32 else 4 * EPS32
    require(not (mev > lmax * (1 + mev_tol) + 1e-300), "max-eigenvalue-not-overestimated",
            f"estimate {mev:.9g} > lambda_max {lmax:.9g}", ratio=mev / lmax)
  retries = float(np.asarray(metrics.total_retries))
  unit = EPS32 if f32 else U64
  if not np.isfinite(err) or err >= 0.5:
    return Result(False, classes + ["rejected"])
  xr = x64[:ps, :ps]
  # ---- ridge actually used
  extra = 0.0
  if case["routine"] == "newton":
    base = max(mev, 1e-25) if case["rel"] else 1.0
    if nt == 1:
      d = eps_arg * base
    else:
      d = eps_arg * base * 10.0 ** (retries - 1)
    if case["rel"]:
      extra = 8 * EPS32
  elif case["routine"] == "lobpcg":
    d = eps_arg * (max(mev, 1e-25) if case["rel"] else 1.0)
    if case["rel"]:
      extra = 8 * EPS32
  else:  # eigh
    if case["rel"]:
      d = None
    else:
      d = eps_arg * 1.0
  xp = np.linalg.matrix_power(xr, p)
  if d is None:
    r0 = xp @ a - np.eye(ps)
    d = float(-np.sum(xp * r0) / max(np.sum(xp * xp), 1e-300))
    d = max(d, 0.0)
  kappa = (lmax + d) / max(float(lam[0]) + d, 1e-300)
  kappa = max(kappa, 1.0)
  slack = K_SLACK * n * p * unit * kappa
  if case["routine"] == "eigh" and case["rel"] and not f32:
    dmax = eps_arg * max(lmax, 1e-6)
    tol = dmax * (1e-6 + K_SLACK * n * p * U64 / max(eps_arg, 1e-300)) + K_SLACK * n * p * U64 * lmax
    require(d <= dmax + tol, "ridge-not-above-eps-lambda-max",
            f"fitted ridge {d:.6g} > eps*lambda_max {dmax:.6g} (+{tol:.3g})")
  # ---- symmetry
  asym = float(np.max(np.abs(xr - xr.T)))
  xmax = float(np.max(np.abs(xr)))
  require(asym <= slack * xmax + 1e-300, "symmetric",
          f"|X-X'|={asym:.3g} > {slack:.3g}*|X|max={xmax:.3g}", ratio=asym / max(slack * xmax, 1e-300))
  if f32:
    return Result(err < 0.1 and n >= 2, classes + ["accepted"],
                  metrics={"sym_ratio_f32": asym / max(slack * xmax, 1e-300)})
  # ---- honesty of the reported error
  resid = float(np.max(np.abs(xp @ (a + d * np.eye(ps)) - np.eye(ps))))
  err_round = 2 * EPS32 * err          # the figure is reported as float32
  allowed = err + err_round + slack + extra
  ratio = (resid - err - err_round - extra) / slack
  require(resid <= allowed, "error-honest",
          f"max|X^p(A+dI)-I| = {resid:.6g} > reported {err:.6g} + slack {slack + extra:.3g} "
          f"(n={n}, p={p}, kappa={kappa:.3g}, d={d:.3g}, retries={retries})", ratio=ratio)
  if nt == 1:
    want = (float(a[0, 0]) + d) ** (-1.0 / p)
    require(abs(xr[0, 0] - want) <= 8 * U64 * abs(want) + (extra * abs(want) if case["rel"] else 0),
            "one-by-one-exact", f"{xr[0,0]!r} vs {want!r}")
  nontrivial = err < 0.1 and n >= 2 and (
      case["rank"] < n or pad > 0 or kappa >= 1e4 or p not in (2, 4)
      or abs(case["log_scale"]) > 2)
  classes.append("accepted" if err < 0.1 else "weakly-accepted")
  classes.append(f"kappa=1e{int(np.log10(kappa))//2*2}+")
  if n <= 3:
    classes.append(f"n={n}")
  if case["rank"] < n:
    classes.append("rank-deficient")
  if retries > 1:
    classes.append("retried")
  return Result(nontrivial, classes,
                metrics={"slack_ratio": max(ratio, 0.0),
                         "sym_ratio": asym / max(slack * xmax, 1e-300)})

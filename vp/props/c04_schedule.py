"""C04 — statistics/preconditioner refresh and warm-up follow the configured schedule."""
import itertools
import math

import numpy as np
from hypothesis import strategies as st

from vp import dsh
from vp.core import Result, require

ID = "C04"
LEVEL = "exploration"
ENV = {"x64": False, "devices": 1}
BUDGET = {"quick": 120, "thorough": 2400}
TRACE_CASES = True      # expensive cases: record the case in flight so a hang can be named
RULE = (
    "Exhaustive grid (statistics interval, preconditioner interval, start step) in "
    "{1..4}x{1..4}x{0..6} (thorough {1..6}^2 x {0..9}) for replicated Distributed "
    "Shampoo, a sub-grid for the sharded variant, Tearfree Shampoo (statistics "
    "freq, preconditioner freq, graft start) and Tearfree Sketchy (update freq, "
    "graft start); Hypothesis-drawn learning-rate-scheduled preconditioner "
    "intervals (dyadic piecewise-constant lr, end in {10,20,40}, 45 steps, so the "
    "//10 rounding is crossed). Every step index up to T is checked against an "
    "explicit schedule automaton by bitwise comparison of successive states, plus "
    "twin runs (interval 1; start 0; start 2^30). Non-trivial = the run contains a "
    "refresh and a non-refresh step for statistics and for preconditioners and a "
    "step on each side of the start step; distinct = the configuration tuple.")
ASSUMPTIONS = [
    "gradients are dense normal, so 'may change' steps do change unless a root is "
    "rejected (counted, never required)",
    "twin comparisons between differently compiled programs use rtol 1e-5 of the "
    "leaf's max-abs; non-refresh steps are compared bit for bit",
    "scheduled interval p_c = max(((p0 + (1 - lr(c)/lr(0)) * end) // 10) * 10, 1) "
    "(the docstring formula) with dyadic lr ratios so float32 evaluates it exactly",
]

SHAPES = [[4, 3], [5]]


def enumerate_cases(shard):
  name = shard["name"]
  th = shard.get("thorough", False)
  if name == "ds-grid":
    r = range(1, 7 if th else 5)
    for s, p, start in itertools.product(r, r, range(0, 10 if th else 7)):
      yield {"kind": "ds", "mode": "plain", "s": s, "p": p, "start": start, "graft": ["SGD", "RMSPROP", "ADAGRAD"][(s + p + start) % 3],
             "eigh": bool((s + start) % 2), "sched": None}
  elif name == "ds-sharded":
    for s, p, start in itertools.product([1, 2, 3], [1, 2, 3], [0, 2, 5] if not th else [0, 1, 2, 5]):
      yield {"kind": "ds", "mode": "sharded", "s": s, "p": p, "start": start, "graft": "SGD", "eigh": False, "sched": None}
  elif name == "tf-shampoo":
    for sf, pf, start in itertools.product([1, 2, 3] + ([4] if th else []), [1, 2, 3] + ([4] if th else []), [0, 1, 3]):
      yield {"kind": "tf", "so": "shampoo", "sf": sf, "pf": pf, "start": start,
             "graft": ["sgd", "rmsprop"][(sf + pf) % 2]}
  elif name == "tf-sketchy":
    for f, start in itertools.product([1, 2, 3, 4], [0, 1, 2, 3, 5]):
      yield {"kind": "tf", "so": "sketchy", "sf": f, "pf": f, "start": start, "graft": ["sgd", "rmsprop"][f % 2]}


@st.composite
def _sched_case(draw):
  return {"kind": "ds", "mode": draw(st.sampled_from(["plain", "plain", "sharded"])), "s": draw(st.sampled_from([1, 2])),
          "p": draw(st.sampled_from([1, 2, 5, 10, 12])), "start": draw(st.sampled_from([0, 3, 12])),
          "graft": "SGD", "eigh": False,
          "sched": {"every": draw(st.sampled_from([3, 5, 8])), "end": draw(st.sampled_from([10, 20, 40]))}}


def shards(tier):
  th = tier == "thorough"
  return [
      {"name": "ds-grid", "exhaustive": True, "workers": 8, "thorough": th},
      {"name": "ds-sharded", "exhaustive": True, "workers": 3, "thorough": th},
      {"name": "tf-shampoo", "exhaustive": True, "workers": 2, "thorough": th},
      {"name": "tf-sketchy", "exhaustive": True, "workers": 1, "thorough": th},
      {"name": "ds-sched", "examples": 2 * (14 if not th else 200), "workers": 2},
  ]


def strategy(shard):
  return _sched_case()


def interpret_exception(exc, tb):
  from vp import core
  frame = core.innermost_repo_frame(tb)
  if frame is not None:
    return "update-runs", f"{type(exc).__name__}: {str(exc)[:200]} in {frame}"
  return None


def _bytes(x):
  return np.asarray(x).tobytes()


def _close(a, b, rtol=1e-5):
  a, b = np.asarray(a, np.float64), np.asarray(b, np.float64)
  scale = max(float(np.max(np.abs(a), initial=0.0)), float(np.max(np.abs(b), initial=0.0)), 1e-30)
  return bool(np.all(np.abs(a - b) <= rtol * scale))


def _grads(T, shapes):
  return dsh.history_np([{"kind": "dense", "seed": 100 + t} for t in range(T)], shapes)


# ------------------------------------------------------------------ Distributed Shampoo
def _ds_opts(case, **over):
  o = {"block_size": 3, "beta1": 0.9, "beta2": 0.99, "matrix_epsilon": 1e-3,
       "start_preconditioning_step": case["start"], "preconditioning_compute_steps": case["p"],
       "statistics_compute_steps": case["s"], "graft_type": case["graft"], "eigh": case["eigh"],
       "best_effort_shape_interpretation": False, "lr": 0.25}
  if case["sched"]:
    o.update(decay_preconditioning_compute_steps=True, end_preconditioning_compute_steps=case["sched"]["end"],
             lr_sched={"every": case["sched"]["every"]})
  o.update(over)
  return o


def _run_ds(o, mode, hist, shapes):
  """Returns list of (state_np, updates_np) per step, plus initial state."""
  import contextlib
  import jax
  params = dsh.params_from(shapes, seed=3)
  opt = dsh.make_opt(o, mode, 1)
  if mode == "sharded":
    from jax.sharding import Mesh
    ctx = Mesh(np.array(jax.devices()[:1]), ("x",))
    with ctx:
      state = opt.init(None).init_fn(params)
  else:
    ctx = contextlib.nullcontext()
    state = opt.init(params)
  out = [(dsh.np_tree(state), None)]
  with ctx:
    upd = jax.jit(opt.update)
    for gs in hist:
      u, state = upd(dsh.to_tree(gs), state, params)
      out.append((dsh.np_tree(state), dsh.np_tree(u)))
  return out


def _ds_groups(state, mode, names):
  """Splits the state leaves into statistics / preconditioners+metrics / other."""
  import jax
  if mode == "sharded":
    gs = state.stats.global_stats
    stats = [gs.statistics]
    pre = [gs.preconditioners]
    met = jax.tree.leaves([state.stats.local_stats[n].training_metrics for n in names])
  else:
    stats = jax.tree.leaves([state.stats[n].statistics for n in names])
    pre = jax.tree.leaves([state.stats[n].preconditioners for n in names])
    met = jax.tree.leaves([state.stats[n].training_metrics for n in names])
  return stats, pre, met


def _pc(case, c):
  if not case["sched"]:
    return case["p"]
  ratio = 0.5 ** (c // case["sched"]["every"])
  v = case["p"] + (1.0 - ratio) * case["sched"]["end"]
  return max(int(v // 10) * 10, 1)


def check_ds(case):
  shapes = [tuple(s) for s in SHAPES]
  names = [f"p{i}" for i in range(len(shapes))]
  mode = case["mode"]
  if case["sched"]:
    T = 45
  else:
    T = min(max(case["start"] + 3, 2 * max(case["s"], case["p"]) + 2), 16)
  hist = _grads(T, shapes)
  base = _run_ds(_ds_opts(case), mode, hist, shapes)
  seen = {"stat_refresh": 0, "stat_hold": 0, "pre_refresh": 0, "pre_hold": 0, "pre_changed": 0, "before": 0, "after": 0}
  for c in range(T):
    (s0, _), (s1, u1) = base[c], base[c + 1]
    require(int(s1.count) == int(s0.count) + 1 == c + 1, "count-advances-by-one", f"step {c}: {int(s0.count)} -> {int(s1.count)}")
    st0, pr0, me0 = _ds_groups(s0, mode, names)
    st1, pr1, me1 = _ds_groups(s1, mode, names)
    srefresh = (c % case["s"]) == 0
    prefresh = (c % _pc(case, c)) == 0
    seen["stat_refresh" if srefresh else "stat_hold"] += 1
    seen["pre_refresh" if prefresh else "pre_hold"] += 1
    seen["before" if c < case["start"] else "after"] += 1
    if not srefresh:
      require(all(_bytes(a) == _bytes(b) for a, b in zip(st0, st1)), "statistics-held-between-refreshes",
              f"{mode} step {c} (statistics interval {case['s']}): statistics changed")
    else:
      require(any(_bytes(a) != _bytes(b) for a, b in zip(st0, st1)), "statistics-refresh-on-schedule",
              f"{mode} step {c} (statistics interval {case['s']}): statistics did not change on a refresh step")
    if not prefresh:
      require(all(_bytes(a) == _bytes(b) for a, b in zip(pr0, pr1)), "preconditioners-held-between-refreshes",
              f"{mode} step {c} (interval {_pc(case, c)}): a preconditioner changed on a non-refresh step")
      require(all(_bytes(a) == _bytes(b) for a, b in zip(me0, me1)), "diagnostics-held-between-refreshes",
              f"{mode} step {c} (interval {_pc(case, c)}): training metrics changed on a non-refresh step")
    elif any(_bytes(a) != _bytes(b) for a, b in zip(pr0, pr1)):
      seen["pre_changed"] += 1
  require(seen["pre_changed"] >= 1, "preconditioners-refresh-on-schedule",
          f"{mode}: no preconditioner ever changed on a scheduled refresh step in {T} steps ({case})")
  # ---- preconditioners at a refresh step reflect the statistics current at that step
  if not case["sched"] and case["p"] > 1:
    twin = _run_ds(_ds_opts(case, preconditioning_compute_steps=1), mode, hist, shapes)
    for c in range(T):
      if c % case["p"] != 0:
        continue
      _, prb, meb = _ds_groups(base[c + 1][0], mode, names)
      _, prt, met_ = _ds_groups(twin[c + 1][0], mode, names)
      for a, b in zip(prb, prt):
        require(_close(a, b), "refresh-uses-current-statistics",
                f"{mode} step {c}: preconditioner differs from the every-step twin (max diff "
                f"{np.max(np.abs(np.asarray(a, np.float64) - np.asarray(b, np.float64))):.3g})")
  # ---- warm-up boundary
  S = case["start"]
  never = _run_ds(_ds_opts(case, start_preconditioning_step=2 ** 30), mode, hist, shapes)
  always = _run_ds(_ds_opts(case, start_preconditioning_step=0), mode, hist, shapes) if S > 0 else base
  for c in range(T):
    ref = never if c < S else always
    for n in names:
      ub, ur = base[c + 1][1][n], ref[c + 1][1][n]
      require(_close(ub, ur), "warmup-boundary",
              f"{mode} step {c} start {S}: update of {n} differs from the "
              f"{'graft-only' if c < S else 'preconditioned'} twin (max diff {np.max(np.abs(ub - ur)):.3g})")
  if case["graft"] == "SGD" and not case["sched"]:
    # closed-form momentum SGD (nesterov, beta1 = 0.9, lr 0.25) before the start step
    m = [np.zeros(s) for s in shapes]
    for c in range(min(S, T)):
      for i, n in enumerate(names):
        g = hist[c][i].astype(np.float32).astype(np.float64)
        m[i] = 0.9 * m[i] + g
        want = -0.25 * (g + 0.9 * m[i])
        require(_close(base[c + 1][1][n], want), "warmup-is-graft-momentum-update",
                f"{mode} step {c} < start {S}: update differs from Nesterov momentum SGD")
  nontrivial = all(seen[k] > 0 for k in ("stat_refresh", "stat_hold", "pre_refresh", "pre_hold", "before", "after"))
  return nontrivial, T


# ------------------------------------------------------------------ Tearfree
def _tf_opt(case, start=None):
  from precondition.tearfree import grafting, momentum, optimizer, second_order, shampoo, sketchy
  if case["so"] == "shampoo":
    so = second_order.Options(merge_dims=2, second_order_type=second_order.SecondOrderType.SHAMPOO,
                              shampoo_options=shampoo.Options(block_size=2, update_preconditioners_freq=case["pf"],
                                                              update_statistics_freq=case["sf"], second_moment_decay=0.9))
  else:
    so = second_order.Options(merge_dims=2, second_order_type=second_order.SecondOrderType.SKETCHY, shampoo_options=None,
                              sketchy_options=sketchy.Options(rank=2, update_freq=case["sf"], second_moment_decay=0.9))
  gt = grafting.GraftingType(case["graft"])
  go = grafting.Options(grafting_type=gt, second_moment_decay=0.0 if case["graft"] == "sgd" else 0.99,
                        start_preconditioning_step=case["start"] if start is None else start,
                        skip_preconditioning_rank1=False)
  mo = momentum.Options(ema=False, nesterov=True, momentum_decay=0.9)
  return optimizer.tearfree(0.25, optimizer.TearfreeOptions(go, so, mo))


def _run_tf(case, hist, shapes, start=None):
  import jax
  params = dsh.params_from(shapes, seed=3)
  opt = _tf_opt(case, start)
  state = opt.init(params)
  out = [(dsh.np_tree(state), None)]
  upd = jax.jit(opt.update)
  for gs in hist:
    u, state = upd(dsh.to_tree(gs), state, params)
    out.append((dsh.np_tree(state), dsh.np_tree(u)))
  return out


def _tf_groups(state, case, names):
  import jax
  graft_state = state[0]
  so_state = graft_state.direction[1]      # (merge, precond, unmerge)
  if case["so"] == "shampoo":
    stats = jax.tree.leaves([so_state.blocks[n].stats for n in names])
    roots = jax.tree.leaves([so_state.blocks[n].roots for n in names])
    return stats, roots, [graft_state.count, so_state.count]
  sk = jax.tree.leaves(so_state.sketches)
  return sk, sk, [graft_state.count, so_state.count]


def check_tf(case):
  shapes = [(4, 4), (4, 2)]
  names = ["p0", "p1"]
  T = min(max(case["start"] + 3, 2 * max(case["sf"], case["pf"]) + 2), 14)
  hist = _grads(T, shapes)
  base = _run_tf(case, hist, shapes)
  seen = {"stat_refresh": 0, "stat_hold": 0, "pre_refresh": 0, "pre_hold": 0, "before": 0, "after": 0}
  for c in range(T):
    (s0, _), (s1, _) = base[c], base[c + 1]
    st0, pr0, cn0 = _tf_groups(s0, case, names)
    st1, pr1, cn1 = _tf_groups(s1, case, names)
    for a, b in zip(cn0, cn1):
      require(int(b) == int(a) + 1 == c + 1, "count-advances-by-one", f"tearfree step {c}: {int(a)} -> {int(b)}")
    srefresh, prefresh = c % case["sf"] == 0, c % case["pf"] == 0
    seen["stat_refresh" if srefresh else "stat_hold"] += 1
    seen["pre_refresh" if prefresh else "pre_hold"] += 1
    seen["before" if c < case["start"] else "after"] += 1
    if not srefresh:
      require(all(_bytes(a) == _bytes(b) for a, b in zip(st0, st1)), "statistics-held-between-refreshes",
              f"tearfree-{case['so']} step {c} (freq {case['sf']}): statistics/sketch changed")
    else:
      require(any(_bytes(a) != _bytes(b) for a, b in zip(st0, st1)), "statistics-refresh-on-schedule",
              f"tearfree-{case['so']} step {c} (freq {case['sf']}): statistics/sketch did not change")
    if not prefresh:
      require(all(_bytes(a) == _bytes(b) for a, b in zip(pr0, pr1)), "preconditioners-held-between-refreshes",
              f"tearfree-{case['so']} step {c} (freq {case['pf']}): roots changed on a non-refresh step")
  if case["so"] == "shampoo" and case["pf"] > 1:
    twin = _run_tf(dict(case, pf=1), hist, shapes)
    for c in range(0, T, case["pf"]):
      _, prb, _ = _tf_groups(base[c + 1][0], case, names)
      _, prt, _ = _tf_groups(twin[c + 1][0], case, names)
      for a, b in zip(prb, prt):
        require(_close(a, b), "refresh-uses-current-statistics", f"tearfree step {c}: roots differ from the every-step twin")
  S = case["start"]
  never = _run_tf(case, hist, shapes, start=2 ** 30)
  always = _run_tf(case, hist, shapes, start=0) if S > 0 else base
  for c in range(T):
    ref = never if c < S else always
    # the single momentum buffer carries history across the boundary, so twins agree only on their own side;
    # compare the pre-boundary side exactly and the first post-boundary step through the graft direction
    if c < S:
      for n in names:
        require(_close(base[c + 1][1][n], ref[c + 1][1][n]), "warmup-boundary",
                f"tearfree step {c} < start {S}: update of {n} differs from the graft-only twin")
  if case["graft"] == "sgd":
    m = [np.zeros(s) for s in shapes]
    for c in range(min(S, T)):
      for i, n in enumerate(names):
        g = hist[c][i].astype(np.float32).astype(np.float64)
        m[i] = 0.9 * m[i] + g
        want = -0.25 * (g + 0.9 * m[i])
        require(_close(base[c + 1][1][n], want), "warmup-is-graft-momentum-update",
                f"tearfree step {c} < start {S}: update differs from Nesterov momentum SGD")
  # from the start step on the direction is the preconditioned one: the pre-momentum update at step S
  # differs from the graft step (dense gradients), observable through the momentum recursion
  if S < T and case["graft"] == "sgd":
    for n in names:
      require(not _close(base[S + 1][1][n], never[S + 1][1][n], rtol=1e-3), "preconditioning-starts-at-start-step",
              f"tearfree step {S} = start: update still equals the graft-only twin")
    if S > 0:
      for n in names:
        require(_close(base[S][1][n], never[S][1][n]), "preconditioning-starts-at-start-step",
                f"tearfree step {S - 1} < start: update already differs from the graft-only twin")
  keys = ("stat_refresh", "stat_hold", "before", "after") if case["so"] == "sketchy" else \
      ("stat_refresh", "stat_hold", "pre_refresh", "pre_hold", "before", "after")
  return all(seen[k] > 0 for k in keys), T


def check(case):
  if case["kind"] == "ds":
    nt, T = check_ds(case)
    classes = [f"ds-{case['mode']}", "scheduled" if case["sched"] else "fixed", f"graft={case['graft']}"]
  else:
    nt, T = check_tf(case)
    classes = [f"tearfree-{case['so']}"]
  return Result(nt, classes, sub=T)

"""C15 — Tearfree optimizer equals its documented composition.

Reference written from the module docstrings (float64 NumPy):
-lr(t) * momentum(weight decay(graft(second_order(merge and pad(g))))).
"""
import itertools

import numpy as np
from hypothesis import strategies as st

from vp import dsh
from vp.core import Result, require
from vp.ref.ds_step import merge_dims

ID = "C15"
LEVEL = "exploration"
ENV = {"x64": True, "devices": 1}
BUDGET = {"quick": 130, "thorough": 2700}
TRACE_CASES = True      # expensive cases: record the case in flight so a hang can be named
RULE = (
    "Hypothesis-built option records over second-order type, block size {2,3,4,8}, "
    "merge limit {2,4,6,16,1024}, statistics/preconditioner frequencies, decay "
    "{.5,.9,.999,1}, grafting type/start step/skip rules, momentum (ema, nesterov, "
    "decay {0,.5,.9}), weight decay before/after momentum, constant/scheduled lr x "
    "trees with ranks 1-4 (shapes that merge, that need padding, with 1-2 large "
    "axes) x histories of 1..6 steps (dense, exactly low-rank, zero, scaled). "
    "Shampoo runs in float64 under x64 against an end-to-end float64 reference "
    "(state and updates); Sketchy runs in float32 with the direction recomputed "
    "from its own sketch state. Metamorphic clauses on the real code: exact "
    "linearity in the learning rate (x2), merged-shape twin, zero-padded twin. "
    "Non-trivial = >= 2 blocks or a merged/padded leaf, and a preconditioner step "
    "at/after the graft start step; distinct = hash of the case.")
ASSUMPTIONS = [
    "linearity in the learning rate is checked to 4 ulp of the update's max-abs (XLA contracts "
    "multiply-adds differently when the factor is exactly 1)",
    "Shampoo: float64 end to end (x64), updates compared at 1e-7 of max-abs, "
    "statistics at 1e-8, roots at 1e-6; a block whose covariance has an eigenvalue "
    "within 1e-9 (relative to the largest) of the documented 1e-6 cut makes the "
    "case ambiguous (counted, not compared)",
    "Sketchy: float32, direction from the implementation's own sketch state "
    "(the sketch laws are C09's), composition compared at 2e-4 of max-abs",
    "ADAFACTOR grafting is taken from optax.adafactor (trusted)",
]

GRAFTS = ["none", "sgd", "rmsprop", "adafactor"]


@st.composite
def _case(draw, max_t, sos):
  so = draw(st.sampled_from(sos))
  nleaves = draw(st.sampled_from([1, 1, 2]))
  B = draw(st.sampled_from([2, 3, 4, 8]))
  shapes = []
  for _ in range(nleaves):
    r = draw(st.sampled_from([1, 2, 2, 3, 4]))
    hi = 9 if r <= 2 else (5 if r == 3 else 3)
    shapes.append([draw(st.integers(2, hi)) for _ in range(r)])
  t = draw(st.integers(1, max_t))
  o = {"so": so, "B": B, "merge": draw(st.sampled_from([2, 4, 6, 16, 1024])),
       "sfreq": draw(st.sampled_from([1, 1, 2, 3])), "pfreq": draw(st.sampled_from([1, 1, 2, 3])),
       "decay": draw(st.sampled_from([0.5, 0.9, 0.999, 1.0])),
       "graft": draw(st.sampled_from(GRAFTS)), "gdecay": draw(st.sampled_from([0.9, 0.999, 1.0])),
       "gstart": draw(st.integers(0, 3)), "skip_rank1": draw(st.booleans()),
       "skip_gt": draw(st.sampled_from([4096, 4096, 6])),
       "ema": draw(st.booleans()), "nesterov": draw(st.booleans()),
       "mdecay": draw(st.sampled_from([0.0, 0.5, 0.9])),
       "wd": draw(st.sampled_from([0.0, 0.0, 0.01, 0.1])), "wd_after": draw(st.booleans()),
       "lr": draw(st.sampled_from([0.25, 1.0, 0.0625])), "sched": draw(st.booleans()),
       "rank": draw(st.sampled_from([1, 2, 3, 8])), "rel_eps": draw(st.booleans()),
       "eps": draw(st.sampled_from([1e-7, 1e-3]))}
  steps = [{"kind": draw(st.sampled_from(["dense", "dense", "lowrank", "zero", "sparse"])),
            "exp": draw(st.sampled_from([0, 0, -2, 2])), "seed": draw(st.integers(0, 2**16))} for _ in range(t)]
  return {"shapes": shapes, "o": o, "steps": steps,
          "twin": draw(st.sampled_from(["none", "lr", "lr", "merged", "padded"]))}


def shards(tier):
  q = tier == "quick"
  return [{"name": "shampoo", "examples": 11 * (30 if q else 330), "workers": 11, "max_t": 6, "sos": ["shampoo"]},
          {"name": "sketchy", "examples": 5 * (30 if q else 300), "workers": 5, "max_t": 6, "sos": ["sketchy"],
           "env": {"x64": False}}]


def case_env(case):
  return {"x64": False} if case["o"]["so"] == "sketchy" else {}


def strategy(shard):
  return _case(shard["max_t"], shard["sos"])


def interpret_exception(exc, tb):
  from vp import core
  frame = core.innermost_repo_frame(tb)
  if frame is not None:
    return "runs", f"{type(exc).__name__}: {str(exc)[:200]} in {frame}"
  return None


# ------------------------------------------------------------------ building the real optimizer
def lr_at(o, t):
  return o["lr"] * 0.5 ** (t // 2) if o["sched"] else o["lr"]


def build(o, lr_scale=1.0):
  import jax.numpy as jnp
  from precondition.tearfree import grafting, momentum, optimizer, second_order, shampoo, sketchy
  if o["so"] == "shampoo":
    so = second_order.Options(merge_dims=o["merge"], second_order_type=second_order.SecondOrderType.SHAMPOO,
                              shampoo_options=shampoo.Options(block_size=o["B"], update_preconditioners_freq=o["pfreq"],
                                                              update_statistics_freq=o["sfreq"], second_moment_decay=o["decay"]))
  else:
    so = second_order.Options(merge_dims=o["merge"], second_order_type=second_order.SecondOrderType.SKETCHY, shampoo_options=None,
                              sketchy_options=sketchy.Options(rank=o["rank"], epsilon=o["eps"], relative_epsilon=o["rel_eps"],
                                                              update_freq=o["sfreq"], second_moment_decay=o["decay"]))
  g = o["graft"]
  gdecay = 0.0 if g in ("none", "sgd") else (o["gdecay"] if not (g == "adafactor" and o["gdecay"] == 1.0) else 0.9)
  go = grafting.Options(grafting_type=grafting.GraftingType(g), second_moment_decay=gdecay,
                        start_preconditioning_step=o["gstart"], epsilon=1e-12,
                        skip_preconditioning_any_dim_gt=o["skip_gt"], skip_preconditioning_rank1=o["skip_rank1"],
                        min_dim_size_to_factor=2, multiply_by_parameter_scale=False)
  mo = momentum.Options(ema=o["ema"], nesterov=o["nesterov"], momentum_decay=o["mdecay"], weight_decay=o["wd"],
                        weight_decay_after_momentum=o["wd_after"])
  if o["sched"]:
    base = o["lr"] * lr_scale
    lr = lambda c: base * jnp.power(0.5, (c // 2).astype(jnp.float32))
  else:
    lr = o["lr"] * lr_scale
  return optimizer.tearfree(lr, optimizer.TearfreeOptions(go, so, mo)), gdecay


def run_real(o, params, hist, dtype, lr_scale=1.0):
  import jax
  import jax.numpy as jnp
  opt, _ = build(o, lr_scale)
  p = {k: jnp.asarray(np.asarray(v, dtype)) for k, v in params.items()}
  state = opt.init(p)
  upd = jax.jit(opt.update)
  outs, states = [], [state]
  for gd in hist:
    g = {k: jnp.asarray(np.asarray(v, dtype)) for k, v in gd.items()}
    u, state = upd(g, state, p)
    outs.append({k: np.asarray(v) for k, v in u.items()})
    states.append(state)
  return outs, states


def second_order_state(state, o):
  gs = state[0]
  if o["graft"] != "none":
    return gs.direction[1]
  return gs[1]


# ------------------------------------------------------------------ float64 reference
class Masked:
  pass


def is_masked(o, shape):
  if o["graft"] == "none":
    return False
  return (o["skip_rank1"] and len(shape) <= 1) or any(d > o["skip_gt"] for d in shape)


class ShampooRef:
  """Blocked Shampoo of one (merged, padded) tensor."""

  def __init__(self, shape, o):
    self.shape = tuple(shape)
    self.merged = merge_dims(shape, o["merge"])
    if self.merged == [1]:
      self.merged = []
    B = o["B"]
    self.B = B
    self.padded = [(-(-d // B) * B if d >= B else d) for d in self.merged]
    self.large = [i for i, d in enumerate(self.padded) if d >= B]
    self.rejected = any(d == 1 for d in self.padded) or len(self.large) > 2
    self.nblocks = [self.padded[i] // B for i in self.large]
    self.bs = [min(d, B) for d in self.padded]
    n = int(np.prod(self.nblocks)) if self.nblocks else 1
    self.stats = [np.zeros((n, b, b)) for b in self.bs]
    self.roots = [np.broadcast_to(np.eye(b), (n, b, b)).copy() for b in self.bs]
    self.o = o
    self.ambiguous = False

  def to_padded(self, g):
    m = g.reshape(self.merged)
    return np.pad(m, [(0, p - d) for p, d in zip(self.padded, self.merged)])

  def from_padded(self, x):
    return x[tuple(slice(0, d) for d in self.merged)].reshape(self.shape)

  def blocks(self):
    for n, combo in enumerate(itertools.product(*[range(k) for k in self.nblocks])):
      sl = [slice(None)] * len(self.padded)
      for ax, bi in zip(self.large, combo):
        sl[ax] = slice(bi * self.B, (bi + 1) * self.B)
      yield n, tuple(sl)

  def step(self, g, count):
    o = self.o
    x = self.to_padded(g)
    rank = len(self.padded)
    if count % o["sfreq"] == 0:
      for n, sl in self.blocks():
        blk = x[sl]
        for ax in range(rank):
          m = np.moveaxis(blk, ax, 0).reshape(blk.shape[ax], -1)
          cov = m @ m.T
          if o["decay"] == 1.0:
            self.stats[ax][n] = self.stats[ax][n] + cov
          else:
            self.stats[ax][n] = self.stats[ax][n] * o["decay"] + cov * (1 - o["decay"])
    if count % o["pfreq"] == 0:
      p = 2 * rank
      for ax in range(rank):
        for n in range(self.stats[ax].shape[0]):
          w, v = np.linalg.eigh(self.stats[ax][n])
          mx = w.max()
          if mx > 0 and np.any(np.abs(w / mx - 1e-6) < 1e-9):
            self.ambiguous = True    # knife edge of the documented cut (float64 eigenvalues carry ~1e-16 relative noise)
          keep = w > 1e-6 * mx
          f = np.where(keep, np.where(keep, w, 1.0) ** (-1.0 / p), 0.0)
          self.roots[ax][n] = (v * f) @ v.T
    out = np.zeros_like(x)
    for n, sl in self.blocks():
      blk = x[sl]
      for ax in range(rank):
        blk = np.moveaxis(np.tensordot(self.roots[ax][n], blk, axes=[[1], [ax]]), 0, ax)
      out[sl] = blk
    return self.from_padded(out)


class GraftRef:
  def __init__(self, o, shapes, gdecay):
    self.o, self.gdecay = o, gdecay
    self.acc = [np.zeros(s) for s in shapes]

  def step(self, i, g):
    k = self.o["graft"]
    if k in ("sgd", "none"):
      return g
    if k == "rmsprop":
      d = self.gdecay
      self.acc[i] = self.acc[i] + g * g if d == 1.0 else (1 - d) * g * g + d * self.acc[i]
      return g / np.sqrt(self.acc[i] + 1e-12)
    raise ValueError(k)


class ChainRef:
  """graft -> momentum/weight decay -> -lr, per leaf."""

  def __init__(self, o, shapes):
    self.o = o
    self.v = [np.zeros(s) for s in shapes]
    self.dv = [np.zeros(s) for s in shapes]      # rounding bound carried by the velocity
    self.last_bound = 0.0

  def finish(self, i, graft_upd, base, count, param, masked, dbase=None):
    o = self.o
    du = 0.0
    if dbase is not None and not masked and (o["graft"] == "none" or count >= o["gstart"]):
      bn = float(np.linalg.norm(base))
      mult = 1.0 if o["graft"] == "none" else (float(np.linalg.norm(graft_upd)) / bn if bn > 0 else 0.0)
      du = mult * dbase
      if bn > 0 and o["graft"] != "none":
        du = du + np.abs(base) * mult * float(np.linalg.norm(dbase)) / bn
    dd = o["mdecay"]
    if dd:
      dus = (1 - dd) * du if o["ema"] else du
      self.dv[i] = dd * self.dv[i] + dus
      dfinal = dus + dd * self.dv[i] if o["nesterov"] else self.dv[i]
    else:
      dfinal = du
    self.last_bound = lr_at(o, count) * dfinal
    if o["graft"] == "none":
      u = base
    elif masked:
      u = graft_upd
    elif count >= o["gstart"]:
      bn = np.linalg.norm(base)
      u = base * (np.linalg.norm(graft_upd) / bn if bn > 0 else 0.0)
    else:
      u = graft_upd
    d = o["mdecay"]
    if o["wd"] > 0 and not o["wd_after"]:
      u = u + o["wd"] * param
    if d:
      us = (1 - d) * u if o["ema"] else u
      self.v[i] = d * self.v[i] + us
      u = us + d * self.v[i] if o["nesterov"] else self.v[i]
    if o["wd"] > 0 and o["wd_after"]:
      u = u + o["wd"] * param
    return -lr_at(o, count) * u


def adafactor_steps(o, gdecay, hist, params, dtype):
  import jax
  import jax.numpy as jnp
  import optax
  tx = optax.chain(optax.adafactor(min_dim_size_to_factor=2, decay_rate=gdecay, multiply_by_parameter_scale=False,
                                   eps=1e-12, clipping_threshold=1.0), optax.scale(-1))
  p = {k: jnp.asarray(np.asarray(v, dtype)) for k, v in params.items()}
  st_ = tx.init(p)
  out = []
  for gd in hist:
    u, st_ = tx.update({k: jnp.asarray(np.asarray(v, dtype)) for k, v in gd.items()}, st_, p)
    out.append({k: np.asarray(v, np.float64) for k, v in u.items()})
  return out


def sketchy_direction(sk_state, name, g, o, shape):
  """Dense application of the implementation's own sketch state (post-update) to the merged gradient.

  Also returns an elementwise float32 rounding bound (the complement g - V V' g cancels).
  """
  merged = merge_dims(shape, o["merge"])
  if merged == [1]:
    merged = []
  x = g.reshape(merged)
  xa = np.abs(x)
  axes = sk_state.sketches[name].axes
  for ax, a in enumerate(axes):
    V = np.asarray(a.eigvecs, np.float64)
    inv = np.asarray(a.inv_eigvals, np.float64)
    it = float(a.inv_tail)
    P = (V * inv) @ V.T + it * (np.eye(V.shape[0]) - V @ V.T)
    Pa = (np.abs(V) * np.abs(inv)) @ np.abs(V).T + abs(it) * (np.eye(V.shape[0]) + np.abs(V) @ np.abs(V).T)
    x = np.moveaxis(np.tensordot(P, x, axes=[[1], [ax]]), 0, ax)
    xa = np.moveaxis(np.tensordot(Pa, xa, axes=[[1], [ax]]), 0, ax)
  k = max([1] + list(merged))
  return x.reshape(shape), (16.0 * (1 + len(merged)) * k * 2.0 ** -24) * xa.reshape(shape)


# ------------------------------------------------------------------ check
def _rel(a, b):
  a, b = np.asarray(a, np.float64), np.asarray(b, np.float64)
  scale = max(float(np.max(np.abs(b), initial=0.0)), float(np.max(np.abs(a), initial=0.0)), 1e-300)
  return float(np.max(np.abs(a - b), initial=0.0)) / scale


def check(case):
  o = case["o"]
  shapes = [tuple(s) for s in case["shapes"]]
  names = [f"p{i}" for i in range(len(shapes))]
  shampoo = o["so"] == "shampoo"
  dtype = np.float64 if shampoo else np.float32
  rng = np.random.default_rng(11)
  params = {n: rng.standard_normal(s).astype(dtype) for n, s in zip(names, shapes)}
  hist_l = dsh.history_np(case["steps"], shapes)
  hist = [{n: np.asarray(g, dtype) for n, g in zip(names, gs)} for gs in hist_l]
  masked = [is_masked(o, s) for s in shapes]
  refs = [ShampooRef(s, o) for s in shapes]
  expect_reject = False
  for r, m, s in zip(refs, masked, shapes):
    if m:
      continue
    if shampoo and r.rejected:
      expect_reject = True
    if not shampoo:
      mg = merge_dims(s, o["merge"])
      if any(d == 1 for d in mg):
        expect_reject = True
  classes = [f"so={o['so']}", f"graft={o['graft']}", f"twin={case['twin']}"]
  try:
    outs, states = run_real(o, params, hist, dtype)
  except ValueError as e:
    require(expect_reject, "documented-rejection-only",
            f"ValueError for a configuration the reference accepts: {str(e)[:160]} (shapes {shapes}, merge {o['merge']}, B {o['B']})")
    return Result(False, classes + ["rejected"])
  require(not expect_reject, "documented-rejection-missing",
          f"shapes {shapes} merge {o['merge']} block {o['B']}: expected the documented ValueError (unit dims / >2 large dims)")
  _, gdecay = build(o)
  graft = GraftRef(o, shapes, gdecay)
  chain = ChainRef(o, shapes)
  ada = adafactor_steps(o, gdecay, hist, params, dtype) if o["graft"] == "adafactor" else None
  tol_u = 1e-7 if shampoo else 2e-4
  worst = 0.0
  nontrivial = False
  for c, gd in enumerate(hist):
    so_state = second_order_state(states[c + 1], o)
    for i, n in enumerate(names):
      g = np.asarray(gd[n], np.float64)
      tag = f"{o['so']} step {c} leaf {shapes[i]} (merge {o['merge']}, B {o['B']}, graft {o['graft']}, twin {case['twin']})"
      if masked[i]:
        base = None
      elif shampoo:
        base = refs[i].step(g, c)
        if refs[i].ambiguous:
          return Result(False, classes + ["ambiguous-eigenvalue-cut"], ambiguous=True)
        blk = so_state.blocks[n]
        require(hasattr(blk, "stats"), "skip-rules-as-documented",
                f"{tag}: the leaf is treated as excluded from preconditioning although no dimension exceeds "
                f"skip_preconditioning_any_dim_gt={o['skip_gt']} and skip_rank1={o['skip_rank1']}")
        for ax in range(len(refs[i].padded)):
          rs = _rel(blk.stats[ax], refs[i].stats[ax])
          require(rs <= 1e-8, "shampoo-statistics", f"{tag} axis {ax}: statistics differ from the decayed block covariances by {rs:.3g}")
          rr = _rel(blk.roots[ax], refs[i].roots[ax])
          worst = max(worst, rr / 1e-6)
          require(rr <= 1e-6, "shampoo-roots",
                  f"{tag} axis {ax}: roots differ from the inverse {2 * len(refs[i].padded)}-th roots "
                  f"(per-block 1e-6 eigenvalue cut) by {rr:.3g}")
      else:
        require(hasattr(so_state.sketches[n], "axes"), "skip-rules-as-documented",
                f"{tag}: the leaf is treated as excluded from preconditioning although the documented skip rules do not apply")
        # sketch cadence: refreshed exactly on multiples of update_freq
        prev_sk = second_order_state(states[c], o).sketches[n]
        same = all(np.asarray(a).tobytes() == np.asarray(b).tobytes()
                   for a, b in zip(__import__("jax").tree.leaves(prev_sk), __import__("jax").tree.leaves(so_state.sketches[n])))
        if c % o["sfreq"] != 0:
          require(same, "sketch-refresh-on-schedule", f"{tag}: sketch changed on a non-refresh step (update_freq {o['sfreq']})")
        elif np.any(g):
          require(not same, "sketch-refresh-on-schedule", f"{tag}: sketch did not change on a refresh step (update_freq {o['sfreq']})")
        base, dbase = sketchy_direction(so_state, n, g, o, shapes[i])
      gu = ada[c][n] if ada is not None else graft.step(i, g)
      want = chain.finish(i, gu, base, c, np.asarray(params[n], np.float64), masked[i],
                          dbase=None if (shampoo or masked[i]) else dbase)
      got = np.asarray(outs[c][n], np.float64)
      require(got.shape == want.shape and np.all(np.isfinite(got)), "update-shape-finite", tag)
      extra = 0.0
      if not shampoo:
        extra = float(np.max(chain.last_bound, initial=0.0)) / max(float(np.max(np.abs(want))), 1e-300)
      r = _rel(got, want)
      worst = max(worst, r / (tol_u + extra))
      require(r <= tol_u + extra, "update-equals-documented-composition",
              f"{tag}: update differs from -lr*momentum(wd(graft(second_order))) by {r:.3g} (tolerance {tol_u:.1g}); "
              f"ema {o['ema']} nesterov {o['nesterov']} decay {o['mdecay']} wd {o['wd']} after {o['wd_after']} lr {lr_at(o, c)}")
      if not masked[i] and c >= o["gstart"] and c % o["pfreq"] == 0 and (
          (shampoo and (int(np.prod(refs[i].nblocks or [1])) >= 2 or refs[i].padded != list(shapes[i]))) or
          (not shampoo and merge_dims(shapes[i], o["merge"]) != list(shapes[i]))):
        nontrivial = True
  # ---- metamorphic twins on the real code
  if case["twin"] == "lr":
    outs2, states2 = run_real(o, params, hist, dtype, lr_scale=2.0)
    for c in range(len(hist)):
      for n in names:
        a2, a1 = np.asarray(outs2[c][n], np.float64), 2.0 * np.asarray(outs[c][n], np.float64)
        ulp = (2.0 ** -52 if shampoo else 2.0 ** -23) * max(float(np.max(np.abs(a1), initial=0.0)), 1e-300)
        # linear up to the compiler's freedom to contract multiply-adds differently for lr = 1 (a plain negation)
        require(float(np.max(np.abs(a2 - a1), initial=0.0)) <= 4 * ulp, "linear-in-learning-rate",
                f"step {c} {n}: doubling the learning rate does not double the update "
                f"(max dev {np.max(np.abs(a2 - a1)):.3g}, 4 ulp = {4 * ulp:.3g})")
  elif case["twin"] == "merged" and o["graft"] in ("none", "sgd", "rmsprop") and not any(masked):
    o2 = dict(o, skip_rank1=False, skip_gt=4096)
    mshapes = [tuple(merge_dims(s, o["merge"])) for s in shapes]
    if all(ms != (1,) for ms in mshapes):
      base_o, _ = run_real(o2, params, hist, dtype)
      p2 = {n: params[n].reshape(ms) for n, ms in zip(names, mshapes)}
      h2 = [{n: gd[n].reshape(ms) for n, ms in zip(names, mshapes)} for gd in hist]
      tw, _ = run_real(o2, p2, h2, dtype)
      for c in range(len(hist)):
        for n, s in zip(names, shapes):
          r = _rel(tw[c][n].reshape(s), base_o[c][n])
          require(r <= (1e-9 if shampoo else 1e-4), "merging-does-not-change-values",
                  f"step {c} {n} {s}: pre-merged twin differs by {r:.3g}")
  elif case["twin"] == "padded" and shampoo and o["graft"] in ("none", "sgd", "rmsprop") and not any(masked):
    o2 = dict(o, skip_rank1=False, skip_gt=4096, merge=2)
    ok = all(len(s) >= 1 and merge_dims(s, 2) == list(s) for s in shapes)
    rs2 = [ShampooRef(s, o2) for s in shapes]
    if ok and not any(r.rejected for r in rs2):
      base_o, _ = run_real(o2, params, hist, dtype)
      pads = [[(0, p - d) for p, d in zip(r.padded, s)] for r, s in zip(rs2, shapes)]
      p2 = {n: np.pad(params[n], pd) for n, pd in zip(names, pads)}
      h2 = [{n: np.pad(gd[n], pd) for n, pd in zip(names, pads)} for gd in hist]
      tw, _ = run_real(o2, p2, h2, dtype)
      for c in range(len(hist)):
        for n, s in zip(names, shapes):
          core_idx = tuple(slice(0, d) for d in s)
          r = _rel(tw[c][n][core_idx], base_o[c][n])
          require(r <= 1e-9, "padding-does-not-change-values", f"step {c} {n} {s}: hand-padded twin differs by {r:.3g} on real entries")
          mask = np.ones(tw[c][n].shape, bool)
          mask[core_idx] = False
          require(not np.any(tw[c][n][mask]), "padding-entries-stay-zero", f"step {c} {n} {s}: padding entries of the twin are not exactly zero")
  return Result(nontrivial, classes, metrics={"tolerance_ratio": worst}, sub=len(hist))

"""Float64 NumPy reference of one Distributed Shampoo step for one parameter.

Written from the distributed_shampoo docstring / arXiv:2002.09018; does not
import the repository.  State is a plain dict:
  statistics: list of [d,d], preconditioners: list of [d,d],
  diag: array or None, momentum, diag_momentum: arrays.
"""
import itertools

import numpy as np

EPSILON = 1e-25


def merge_dims(shape, max_dim):
  shape = list(shape)
  if shape and all(d == 1 for d in shape):
    return [1]
  out, prod = [], 1
  for d in shape:
    if prod * d <= max_dim:
      prod *= d
    else:
      if prod > 1:
        out.append(prod)
      prod = d
  if prod > 1:
    out.append(prod)
  return out


class Layout:
  """Merged shape, block grid and preconditioned axes of one parameter."""

  def __init__(self, shape, o):
    self.shape = tuple(shape)
    self.skipped = len(shape) < o["skip_preconditioning_rank_lt"] or any(
        d > o["skip_preconditioning_dim_size_gt"] for d in shape)
    self.tshape = merge_dims(shape, o["merge_small_dims_block_size"]) if o["best_effort_shape_interpretation"] else list(shape)
    b = o["block_size"]
    self.cells = []
    for d in self.tshape:
      if 0 < b < d:
        n = -(-d // b)
        self.cells.append([(i * b, min((i + 1) * b, d)) for i in range(n)])
      else:
        self.cells.append([(0, d)])
    rank = len(self.tshape)
    pt = o["precondtioner_type"]
    if pt == "ALL" or rank <= 1:
      self.pdims = list(range(rank))
    elif pt == "INPUT":
      self.pdims = list(range(rank - 1))
    else:
      self.pdims = [rank - 1]
    self.blocks = list(itertools.product(*self.cells))
    self.exponent = o["exponent_override"] if o["exponent_override"] else 2 * len(self.pdims)

  def stat_sizes(self):
    if self.skipped:
      return []
    return [cell[ax][1] - cell[ax][0] for cell in self.blocks for ax in self.pdims]

  def slices(self, cell):
    return tuple(slice(a, b) for a, b in cell)


def gram(block, axis):
  m = np.moveaxis(block, axis, 0).reshape(block.shape[axis], -1)
  return m @ m.T


def new_statistics(layout, stats, g, o, count):
  if layout.skipped:
    return []
  if count % o["statistics_compute_steps"] != 0:
    return [s.copy() for s in stats]
  beta2 = o["beta2"]
  w1 = beta2
  w2 = beta2 if beta2 == 1.0 else 1.0 - beta2
  gt = g.reshape(layout.tshape)
  out, k = [], 0
  for cell in layout.blocks:
    blk = gt[layout.slices(cell)]
    for ax in layout.pdims:
      out.append(w1 * stats[k] + w2 * gram(blk, ax))
      k += 1
  return out


def inverse_root(stat, p, ridge, clamp=False):
  """(stat + ridge I)^(-1/p).

  float32 statistics of a singular Gram matrix can have slightly negative
  eigenvalues.  The eigendecomposition routine is documented to clamp the
  regularised eigenvalues at the ridge (clamp=True); the Newton routine works on
  the matrix as it is.  In both cases there is no reference unless stat + ridge I
  is positive definite (returns None): a ridge below the rounding noise of the
  float32 statistics is outside the property's domain.
  """
  w, v = np.linalg.eigh((stat + stat.T) / 2)
  if w[0] + ridge <= 0:
    return None          # regularised matrix not positive definite: the root is not defined
  if clamp:
    w = np.maximum(w, 0.0)
  w = w + ridge
  return (v * w ** (-1.0 / p)) @ v.T


def precondition(layout, preconditioners, g, absolute=False):
  if absolute:
    preconditioners = [np.abs(p) for p in preconditioners]
    g = np.abs(g)
  gt = g.reshape(layout.tshape)
  out = np.zeros_like(gt)
  k = 0
  npre = len(layout.pdims)
  for cell in layout.blocks:
    sl = layout.slices(cell)
    blk = gt[sl]
    for j, ax in enumerate(layout.pdims):
      blk = np.moveaxis(np.tensordot(blk, preconditioners[k + j], axes=[[ax], [0]]), -1, ax)
    out[sl] = blk
    k += npre
  return out.reshape(layout.shape)


def graft_step(o, g, diag):
  """Returns (grafting update before lr, new diagonal statistics or None)."""
  gt = o["graft_type"]
  if gt in ("SGD", "NONE"):
    return g, diag
  if gt == "SQRT_N":
    return np.sign(g), diag
  sg = g
  if gt.endswith("_NORMALIZED"):
    sg = g / (np.linalg.norm(g) + EPSILON)
  if gt.startswith("ADAGRAD"):
    nd = diag + sg * sg
    return sg / (np.sqrt(nd) + o["diagonal_epsilon"]), nd
  beta2 = o["beta2"]
  w2 = beta2 if beta2 == 1.0 else 1.0 - beta2
  nd = beta2 * diag + w2 * sg * sg
  upd = sg / (np.sqrt(nd) + o["diagonal_epsilon"])
  clip = o.get("clip_by_scaled_gradient_norm")
  if clip:
    nrm = np.linalg.norm(upd) / np.sqrt(float(upd.size))
    upd = upd / max(1.0, nrm / clip)
  return upd, nd


def transform(layout, o, g, param, state, preconditioners, count, lr, unit=2.0 ** -24):
  """Everything after the preconditioners are fixed.

  Returns (update, new_state_fields, bounds) where bounds are elementwise
  float32 rounding bounds (cancellation in the contractions) for the update and
  the Shampoo momentum.
  """
  gu, new_diag = graft_step(o, g, state["diag"])
  pm = 1.0 if o["decoupled_learning_rate"] else lr
  gu = gu * pm
  if not layout.skipped:
    pg = precondition(layout, preconditioners, g)
    kdim = max([1] + [c[ax][1] - c[ax][0] for c in layout.blocks for ax in layout.pdims])
    dpg = 8.0 * (1 + len(layout.pdims)) * kdim * unit * precondition(layout, preconditioners, g, absolute=True)
  else:
    pg = gu
    dpg = np.zeros_like(pg)
  gnorm, pnorm = np.linalg.norm(gu), np.linalg.norm(pg)
  mult = gnorm / (pnorm + EPSILON) if o["graft_type"] != "NONE" else 1.0
  su = pg * mult
  dsu = mult * dpg
  if o["graft_type"] != "NONE" and pnorm > 0:
    dsu = dsu + np.abs(su) * (np.linalg.norm(dpg) / pnorm)
  wd = o["weight_decay"]
  su_wd, gu_wd = su, gu
  if wd != 0 and not o["decoupled_weight_decay"]:
    su_wd = su + wd * param
    gu_wd = gu + wd * param
  beta1 = o["beta1"]
  w = (1.0 - beta1) if o["moving_average_for_momentum"] else 1.0
  sm = state["momentum"] * beta1 + w * su_wd
  gm = state["diag_momentum"] * beta1 + w * gu_wd
  run = count >= o["start_preconditioning_step"]
  mom = sm if run else gm
  wdu = su_wd if run else gu_wd
  nest = w * wdu + beta1 * mom if o["nesterov"] else mom
  if wd != 0 and o["decoupled_weight_decay"]:
    nest = nest + (1.0 if o["decoupled_learning_rate"] else lr) * wd * param
  mm = lr if o["decoupled_learning_rate"] else 1.0
  dmom = w * dsu
  dupd = abs(mm) * ((w + beta1 * w) if o["nesterov"] else w) * dsu if run else np.zeros_like(dsu)
  risky = (not layout.skipped) and o["graft_type"] != "NONE" and pg.size > 0 and not (1e-15 < pnorm < 1e15)
  # magnitude of the terms that are summed (the sums themselves may cancel)
  mx = lambda a: float(np.max(np.abs(a), initial=0.0))
  scale = max(mx(su), mx(gu), mx(state["momentum"]) * beta1, mx(state["diag_momentum"]) * beta1,
              abs(wd) * mx(param))
  return -mm * nest, {"diag": new_diag, "momentum": sm, "diag_momentum": gm}, {
      "update": dupd, "momentum": dmom, "norm_outside_float32_range": bool(risky),
      "scale": scale, "update_scale": abs(mm) * (1 + beta1) * scale + (abs(wd) * mx(param) if wd else 0.0)}

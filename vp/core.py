"""Shared types and helpers of the verification machinery.

A *case* is a plain JSON-serialisable dict drawn by a Hypothesis strategy (or
produced by an exhaustive enumerator).  ``check(case)`` of a property module is
a pure function of the case and of the code under /repo: it returns a
``Result`` or raises ``Violation``.
"""
import hashlib
import json
import os
import re
import traceback

VERIF_DIR = os.path.dirname(os.path.dirname(os.path.abspath(__file__)))
REPO_DIR = os.environ.get("VERIF_REPO", "/repo")


class Violation(Exception):
  """The property does not hold on this case."""

  def __init__(self, clause, detail="", data=None):
    super().__init__(f"{clause}: {detail}")
    self.clause = clause
    self.detail = detail
    self.data = data or {}


class Result(dict):
  """Outcome of a check that held.

  keys: nontrivial (bool), classes (list of str), metrics (dict name->float,
  aggregated with max), ambiguous (bool), key (optional distinctness key,
  default = hash of the case), sub (int: number of sub-evaluations, e.g. steps).
  """

  def __init__(self, nontrivial=False, classes=(), metrics=None,
               ambiguous=False, key=None, sub=1):
    super().__init__(nontrivial=bool(nontrivial), classes=list(classes),
                     metrics=dict(metrics or {}), ambiguous=bool(ambiguous),
                     key=key, sub=int(sub))


def canon(obj):
  return json.dumps(obj, sort_keys=True, separators=(",", ":"),
                    default=_json_default)


def _json_default(o):
  try:
    import numpy as np
    if isinstance(o, np.generic):
      return o.item()
    if isinstance(o, np.ndarray):
      return o.tolist()
  except Exception:  # pylint: disable=broad-except
    pass
  return repr(o)


def case_hash(obj):
  return hashlib.sha1(canon(obj).encode()).hexdigest()[:16]


def require(cond, clause, detail="", **data):
  if not cond:
    raise Violation(clause, detail, data)


_REPO_FRAME = re.compile(r"/precondition/")


def innermost_repo_frame(tb):
  """Returns 'file:function' of the innermost frame inside the code under test."""
  frames = traceback.extract_tb(tb)
  for fr in reversed(frames):
    fn = fr.filename
    if _REPO_FRAME.search(fn) and "/verif/" not in fn:
      return f"{os.path.basename(fn)}:{fr.name}"
  return None


def innermost_frame(tb):
  frames = traceback.extract_tb(tb)
  if not frames:
    return "?"
  fr = frames[-1]
  return f"{os.path.basename(fr.filename)}:{fr.name}"


def load_known_findings(prop_id):
  path = os.path.join(VERIF_DIR, "known_findings.json")
  if not os.path.exists(path):
    return []
  with open(path) as f:
    doc = json.load(f)
  return [e for e in doc.get("findings", [])
          if e.get("property") == prop_id and e.get("status") == "known"]


def _get_path(case, path):
  cur = case
  for part in path.split("."):
    if isinstance(cur, dict) and part in cur:
      cur = cur[part]
    else:
      return None
  return cur


def finding_matches(entry, clause, detail, case, data=None):
  """A known finding matches only its own clause AND its own input class.

  entry['clause'] must equal the violated clause; entry['detail_regex'] (if
  present) must match the detail text; every entry['where'] item
  (dotted.case.path -> list of allowed values) must hold for the case.
  """
  if entry.get("clause") != clause:
    return False
  rx = entry.get("detail_regex")
  if rx and not re.search(rx, detail or ""):
    return False
  lookup = dict(case) if isinstance(case, dict) else {}
  lookup["_data"] = data or {}
  for path, allowed in (entry.get("where") or {}).items():
    if _get_path(lookup, path) not in allowed:
      return False
  return True

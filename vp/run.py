"""Runner: ./check <ID> quick|thorough   or   ./check <ID> --replay FILE

Exit codes: 0 property held on everything explored (known findings printed),
1 at least one unlisted violation (VIOLATION line printed), 2 harness error.
"""
import glob
import importlib
import json
import os
import shutil
import subprocess
import sys
import time

from vp import core

NPROC = int(os.environ.get("VERIF_NPROC", "16"))

MODULES = {
    "C01": "c01_roots", "C02": "c02_ds_math", "C03": "c03_gate",
    "C04": "c04_schedule", "C05": "c05_graft", "C06": "c06_shapes",
    "C07": "c07_contract", "C08": "c08_blocks", "C09": "c09_fd",
    "C10": "c10_lowrank", "C11": "c11_quant", "C12": "c12_sm3",
    "C13": "c13_devices", "C14": "c14_resume", "C15": "c15_tearfree",
    "C16": "c16_oco", "C17": "c17_realloc",
}


def worker_env(env_spec):
  env = dict(os.environ)
  env["PYTHONHASHSEED"] = "0"
  env["PYTHONPATH"] = core.VERIF_DIR + os.pathsep + core.REPO_DIR
  devices = int(env_spec.get("devices", 1))
  flags = ["--xla_cpu_multi_thread_eigen=false"]
  if devices > 1:
    flags.append(f"--xla_force_host_platform_device_count={devices}")
  env["XLA_FLAGS"] = " ".join(flags)
  env["OMP_NUM_THREADS"] = "1"
  env["OPENBLAS_NUM_THREADS"] = "1"
  env["MKL_NUM_THREADS"] = "1"
  env["JAX_PLATFORMS"] = "cpu"
  env["TF_CPP_MIN_LOG_LEVEL"] = "3"
  env["PRECONDITION_VERIF"] = "1"
  return env


def run_tasks(tasks, base_spec, workdir, nproc, hard_limit_s=None):
  """Runs tasks as subprocesses, at most nproc at a time.

  A worker that exceeds hard_limit_s (several times its exploration budget: a
  hang, e.g. a deadlocked collective) is killed; that is a harness error
  ("inconclusive"), never a violation by itself.
  """
  pending = list(enumerate(tasks))
  running = []
  results = [None] * len(tasks)
  while pending or running:
    while pending and len(running) < nproc:
      i, task = pending.pop(0)
      tpath = os.path.join(workdir, f"task{i}.json")
      opath = os.path.join(workdir, f"out{i}.json")
      epath = os.path.join(workdir, f"err{i}.log")
      task = dict(task, trace_path=os.path.join(workdir, f"current{i}.json"))
      with open(tpath, "w") as f:
        json.dump(task, f)
      ef = open(epath, "w")
      spec = dict(base_spec)
      spec.update(task.get("shard", {}).get("env", {}))
      p = subprocess.Popen(
          [sys.executable, "-m", "vp.worker", tpath, opath],
          env=worker_env(spec), cwd=core.VERIF_DIR, stdout=subprocess.DEVNULL, stderr=ef)
      running.append((i, p, opath, epath, ef, time.time()))
    time.sleep(0.05)
    still = []
    for (i, p, opath, epath, ef, started) in running:
      if p.poll() is None:
        if hard_limit_s is not None and time.time() - started > hard_limit_s:
          p.kill()
          p.wait()
          ef.close()
          last = ""
          try:
            with open(os.path.join(workdir, f"current{i}.json")) as f:
              last = f.read()[:1500]
          except OSError:
            pass
          results[i] = {"fatal": f"worker exceeded the hard time limit of {hard_limit_s:.0f}s and was killed "
                                 f"(task {tasks[i].get('shard', {}).get('name')}); last case handed to check(): {last}",
                        "task": tasks[i], "timeout": True}
          continue
        still.append((i, p, opath, epath, ef, started))
        continue
      ef.close()
      if os.path.exists(opath):
        with open(opath) as f:
          results[i] = json.load(f)
      else:
        with open(epath) as f:
          err = f.read()[-4000:]
        last = ""
        try:
          with open(os.path.join(workdir, f"current{i}.json")) as f:
            last = f.read()[:1500]
        except OSError:
          pass
        results[i] = {"fatal": f"worker exited {p.returncode} without result (task "
                               f"{tasks[i].get('shard', {}).get('name')}); last case handed to check(): {last}\n{err}",
                      "task": tasks[i]}
    running = still
  return results


def load_replays(prop_id):
  out = []
  for path in sorted(glob.glob(os.path.join(core.VERIF_DIR, "replays", prop_id, "*.json"))):
    with open(path) as f:
      doc = json.load(f)
    out.append((path, doc))
  return out


def main(argv):
  if len(argv) < 2:
    print(__doc__)
    return 2
  prop_id = argv[0]
  if prop_id not in MODULES:
    print(f"unknown property {prop_id}")
    return 2
  replay_file = None
  if argv[1] == "--replay":
    replay_file = argv[2]
    tier = "quick"
  else:
    tier = argv[1]
    if len(argv) >= 4 and argv[2] == "--replay":
      replay_file = argv[3]
  if tier not in ("quick", "thorough"):
    print(f"unknown tier {tier}")
    return 2
  seed = int(os.environ.get("VERIF_SEED", "1"))
  t0 = time.time()
  modname = MODULES[prop_id]
  os.environ.setdefault("JAX_PLATFORMS", "cpu")
  sys.path.insert(0, core.REPO_DIR)
  mod = importlib.import_module(f"vp.props.{modname}")
  env = dict(getattr(mod, "ENV", {}))
  workdir = os.path.join(core.VERIF_DIR, ".work", f"{prop_id}-{tier}-{os.getpid()}")
  shutil.rmtree(workdir, ignore_errors=True)
  os.makedirs(workdir, exist_ok=True)
  budget = getattr(mod, "BUDGET", {"quick": 120, "thorough": 1500})[tier]
  # development aid: VERIF_SCALE < 1 shrinks example counts and the time guard (e.g. to smoke-test a thorough tier)
  scale = float(os.environ.get("VERIF_SCALE", "1"))
  budget = max(20.0, budget * scale)

  tasks = []
  replay_index = []
  if replay_file:
    with open(replay_file) as f:
      doc = json.load(f)
    replay_index = [(replay_file, doc)]
  else:
    replay_index = load_replays(prop_id)
  if replay_index:
    # replays run under the environment their case needs (module.case_env)
    case_env = getattr(mod, "case_env", lambda c: {})
    groups = {}
    for _, d in replay_index:
      groups.setdefault(json.dumps(case_env(d["case"]), sort_keys=True), []).append(d["case"])
    for envkey, cases in groups.items():
      nrep = min(NPROC, max(1, len(cases) // 4))
      for part in range(nrep):
        tasks.append({"module": modname, "kind": "replay",
                      "shard": {"name": "replay", "env": json.loads(envkey)},
                      "replay_cases": [c for j, c in enumerate(cases) if j % nrep == part],
                      "budget_s": 10 * budget, "seed": seed})
  n_replay_tasks = len(tasks)
  if not replay_file:
    for shard in mod.shards(tier):
      parts = int(shard.get("workers", 1))
      for part in range(parts):
        tasks.append({
            "module": modname, "kind": "gen", "shard": shard, "tier": tier,
            "part": part, "parts": parts,
            "examples": max(1, int(int(shard.get("examples", 100)) * scale) // parts),
            "seed": seed * 100003 + len(tasks) * 101 + 7,
            "budget_s": budget,
            "shrink_s": getattr(mod, "SHRINK_S", {"quick": 45, "thorough": 240})[tier],
        })
  hard_limit = 4 * budget + 3 * getattr(mod, "SHRINK_S", {"quick": 45, "thorough": 240})[tier] + 240
  results = run_tasks(tasks, env, workdir, NPROC, hard_limit_s=hard_limit)

  # ---- aggregate
  fatal = [r for r in results if r is None or "fatal" in r]
  evaluations = sub = skipped = ambiguous = n_harness = 0
  nontrivial = set()
  classes, metrics, samples, buckets = {}, {}, [], {}
  harness_samples = []
  exhaustive_ok = True
  any_exhaustive = False
  shard_stats = {}
  for idx, r in enumerate(results):
    if r is None or "fatal" in r:
      continue
    evaluations += r["evaluations"]
    sub += r["sub"]
    skipped += r["skipped_budget"]
    ambiguous += r["ambiguous"]
    n_harness += r["n_harness_errors"]
    harness_samples += r["harness_errors"]
    nontrivial.update(r["nontrivial_keys"])
    for k, v in r["classes"].items():
      classes[k] = classes.get(k, 0) + v
    for k, v in r["metrics"].items():
      if k not in metrics or v > metrics[k]:
        metrics[k] = v
    if r["task"].get("kind") == "gen":
      for s in r["samples"]:
        if len(samples) < 8:
          samples.append(s)
      sname = r["task"]["shard"].get("name", "?")
      st = shard_stats.setdefault(sname, {"evaluations": 0, "wall_s": 0.0})
      st["evaluations"] += r["evaluations"]
      st["wall_s"] = max(st["wall_s"], r["wall_s"])
      if r["task"]["shard"].get("exhaustive"):
        any_exhaustive = True
        exhaustive_ok = exhaustive_ok and r["exhaustive_complete"]
    for bname, b in r["buckets"].items():
      b = dict(b)
      b["from_replay"] = idx < n_replay_tasks
      cur = buckets.get(bname)
      if cur is None or len(core.canon(b["case"])) < len(core.canon(cur["case"])):
        if cur is not None:
          b["n"] += cur["n"]
        buckets[bname] = b
      else:
        cur["n"] += b["n"]
  if not samples:
    for r in results:
      if r and "samples" in r:
        samples += r["samples"][:2]

  # ---- classify failures
  known = core.load_known_findings(prop_id)
  viol_dir = os.path.join(core.VERIF_DIR, "violations", prop_id)
  lines = []
  n_viol = 0
  known_seen = {}
  for bname, b in sorted(buckets.items()):
    match = None
    for e in known:
      if core.finding_matches(e, b["clause"], b["detail"], b["case"], b.get("data")):
        match = e
        break
    if match is not None:
      known_seen.setdefault(match["id"], 0)
      known_seen[match["id"]] += b["n"]
      continue
    n_viol += 1
    os.makedirs(viol_dir, exist_ok=True)
    path = None
    if b.get("from_replay"):
      for rp, d in replay_index:
        if core.case_hash(d["case"]) == core.case_hash(b["case"]):
          path = rp
    if path is None:
      safe = "".join(ch if ch.isalnum() else "_" for ch in bname)[:80]
      path = os.path.join(viol_dir, f"{safe}_{core.case_hash(b['case'])}.json")
      with open(path, "w") as f:
        json.dump({"property": prop_id, "clause": b["clause"], "detail": b["detail"],
                   "data": b.get("data", {}), "case": b["case"], "seed": seed,
                   "tier": tier, "bucket": bname, "occurrences": b["n"]},
                  f, indent=1, default=core._json_default)  # pylint: disable=protected-access
    lines.append(f"VIOLATION property={prop_id} replay={path}")
    print(f"  clause={b['clause']} occurrences={b['n']} detail={b['detail'][:400]}")
  for e in known:
    what = e.get("what", e["id"])
    seen = known_seen.get(e["id"], 0)
    print(f"KNOWN-FINDING: property={prop_id} {e['id']}: {what} "
          f"(reproduced {seen}x in this run)")

  harness_fail = bool(fatal) or n_harness > 0
  amb_limit = getattr(mod, "AMBIGUOUS_LIMIT", 0.05)
  if evaluations and ambiguous > amb_limit * max(evaluations, 1) and ambiguous > 20:
    harness_fail = True
    print(f"HARNESS: ambiguous cases {ambiguous}/{evaluations} exceed {amb_limit:.0%}")

  wall = time.time() - t0
  evidence = {
      "property_id": prop_id,
      "tier": tier,
      "seed": seed,
      "level": getattr(mod, "LEVEL", "exploration"),
      "coverage": {
          "evaluations": int(evaluations),
          "distinct_nontrivial": len(nontrivial),
          "rule": getattr(mod, "RULE", ""),
          "samples": samples[:8],
          "sub_evaluations": int(sub),
          "ambiguous_not_compared": int(ambiguous),
          "skipped_for_time_budget": int(skipped),
          "inconclusive_budget": bool(skipped > 0),
          "class_histogram": dict(sorted(classes.items())),
          "metrics_max": metrics,
          "replayed_files": len(replay_index),
          "shards": shard_stats,
          "known_findings_reproduced": known_seen,
      },
      "assumptions": list(getattr(mod, "ASSUMPTIONS", [])),
      "wall_s": round(wall, 2),
      "violations": int(n_viol),
  }
  if any_exhaustive:
    evidence["coverage"]["exhaustive"] = bool(exhaustive_ok and not skipped)
  # evidence describes /repo itself: a development run against a scratch tree (VERIF_REPO) never writes it
  if replay_file is None and os.environ.get("VERIF_REPO", "/repo").rstrip("/") == "/repo":
    os.makedirs(os.path.join(core.VERIF_DIR, "evidence"), exist_ok=True)
    with open(os.path.join(core.VERIF_DIR, "evidence", f"{prop_id}.json"), "w") as f:
      json.dump(evidence, f, indent=1, default=core._json_default)  # pylint: disable=protected-access

  print(f"{prop_id} {tier} seed={seed}: evaluations={evaluations} sub={sub} "
        f"distinct_nontrivial={len(nontrivial)} ambiguous={ambiguous} "
        f"skipped_budget={skipped} violations={n_viol} wall={wall:.1f}s")
  if classes:
    print("  classes: " + ", ".join(f"{k}={v}" for k, v in sorted(classes.items())))
  if metrics:
    print("  metrics(max): " + ", ".join(f"{k}={v:.3g}" for k, v in sorted(metrics.items())))

  if harness_fail:
    for r in fatal:
      print("HARNESS-ERROR (worker):", (r or {}).get("fatal", "no result")[-3000:])
    for h in harness_samples[:3]:
      print("HARNESS-ERROR (check):", json.dumps(h.get("case"))[:600])
      print(h["error"][-3000:])
  if not os.environ.get("VERIF_KEEP_WORK"):
    shutil.rmtree(workdir, ignore_errors=True)
  for ln in lines:
    print(ln)
  if n_viol:
    return 1
  # A harness error alone is never reported as a violation of the property.
  return 2 if harness_fail else 0


if __name__ == "__main__":
  sys.exit(main(sys.argv[1:]))

"""Shared harness for Distributed Shampoo checks: option records -> optimizer,
parameter trees, gradient histories, state read-out and signatures."""
import numpy as np

GRAFTS = ["NONE", "SGD", "ADAGRAD", "RMSPROP", "RMSPROP_NORMALIZED", "SQRT_N",
          "ADAGRAD_NORMALIZED"]
PTYPES = ["ALL", "INPUT", "OUTPUT"]

DEFAULTS = dict(
    block_size=128, beta1=0.9, beta2=0.999, diagonal_epsilon=1e-10,
    matrix_epsilon=1e-6, weight_decay=0.0, start_preconditioning_step=5,
    preconditioning_compute_steps=1, decay_preconditioning_compute_steps=False,
    end_preconditioning_compute_steps=None, statistics_compute_steps=1,
    best_effort_shape_interpretation=True, graft_type="SGD", nesterov=True,
    exponent_override=0, best_effort_memory_usage_reduction=False,
    inverse_failure_threshold=0.1, moving_average_for_momentum=False,
    skip_preconditioning_dim_size_gt=4096, clip_by_scaled_gradient_norm=None,
    relative_matrix_epsilon=True, merge_small_dims_block_size=4096,
    lobpcg_topk_precondition=0, lobpcg_max_iter=0, precondtioner_type="ALL",
    generate_fd_metrics=False, compression_rank=0, frequent_directions=False,
    reset_preconditioner=False, average_grad=False,
    skip_preconditioning_rank_lt=1, decoupled_learning_rate=True,
    decoupled_weight_decay=False, generate_training_metrics=True,
    reuse_preconditioner=False, eigh=False)


def lr_value(o, step):
  """Learning rate at update index `step` for the option record (python float)."""
  lr = o.get("lr", 0.1)
  sched = o.get("lr_sched")
  if not sched:
    return lr
  return lr * 0.5 ** (step // sched["every"])


def make_lr(o):
  import jax.numpy as jnp
  lr = o.get("lr", 0.1)
  sched = o.get("lr_sched")
  if not sched:
    return lr
  every = sched["every"]

  def lr_fn(step):
    return lr * jnp.power(0.5, (jnp.asarray(step) // every).astype(jnp.float32))
  return lr_fn


def make_opt(o, mode="plain", devices=1):
  """Builds distributed_shampoo from a JSON option record (missing keys = defaults)."""
  from jax.sharding import PartitionSpec as P
  from precondition import distributed_shampoo as ds
  kw = dict(DEFAULTS)
  for k, v in o.items():
    if k in kw:
      kw[k] = v
  kw["graft_type"] = ds.GraftingType[kw["graft_type"]]
  kw["precondtioner_type"] = ds.PreconditionerType[kw["precondtioner_type"]]
  if mode == "pmap":
    kw["batch_axis_name"] = "batch"
  if mode == "sharded":
    kw.update(shard_optimizer_states=True, num_devices_for_pjit=devices,
              statistics_partition_spec=P("x", None, None),
              preconditioner_partition_spec=P("x", None, None))
  return ds.distributed_shampoo(make_lr(o), **kw)


def params_from(shapes, seed=0, dtype=np.float32):
  import jax.numpy as jnp
  rng = np.random.default_rng(1000 + seed)
  return {f"p{i}": jnp.asarray(rng.standard_normal(s).astype(dtype)) for i, s in enumerate(shapes)}


def grad_np(spec, shape, prev=None):
  """spec: {kind, exp, seed}; deterministic float64 array."""
  rng = np.random.default_rng(spec["seed"])
  k = spec.get("kind", "dense")
  g = rng.standard_normal(shape)
  if k == "zero":
    g = np.zeros(shape)
  elif k == "sparse":
    g = g * (rng.random(shape) < 0.4)
  elif k == "lowrank" and len(shape) >= 2:
    a = rng.standard_normal((shape[0], 1))
    b = rng.standard_normal((1, int(np.prod(shape[1:]))))
    g = (a @ b).reshape(shape)
  elif k == "ints":
    g = rng.integers(-3, 4, shape).astype(np.float64)
  elif k == "repeat" and prev is not None:
    return prev.copy()
  return g * 10.0 ** spec.get("exp", 0)


def history_np(steps, shapes):
  out, prev = [], [None] * len(shapes)
  for spec in steps:
    gs = []
    for i, s in enumerate(shapes):
      g = grad_np(dict(spec, seed=spec["seed"] * 13 + i), tuple(s), prev[i])
      prev[i] = g
      gs.append(g)
    out.append(gs)
  return out


def to_tree(arrs, dtype=np.float32):
  import jax.numpy as jnp
  return {f"p{i}": jnp.asarray(np.asarray(a, dtype)) for i, a in enumerate(arrs)}


def signature(tree):
  """(treedef string incl. static fields, [(shape, dtype)...]) of a pytree of arrays/ShapeDtypeStructs."""
  import jax
  leaves, treedef = jax.tree.flatten(tree)
  sig = []
  for l in leaves:
    shape = tuple(getattr(l, "shape", np.shape(l)))
    dt = getattr(l, "dtype", None)
    if dt is None:
      dt = np.asarray(l).dtype
    sig.append((shape, str(np.dtype(dt))))
  return str(treedef), sig


def np_tree(tree):
  import jax
  return jax.tree.map(np.asarray, tree)


def leaves_with_paths(tree):
  import jax
  out = []
  for path, leaf in jax.tree_util.tree_flatten_with_path(tree)[0]:
    out.append((jax.tree_util.keystr(path), leaf))
  return out

"""One worker process: runs one task (a shard of one property) and writes a JSON result.

Usage: python -m vp.worker <task.json> <out.json>

Environment (XLA flags, x64) is pinned by the parent through the process
environment; this module additionally sets jax_enable_x64 before anything from
the repository is imported.
"""
import importlib
import json
import os
import random
import sys
import time
import traceback


def _setup_jax(env):
  import jax  # pylint: disable=g-import-not-at-top
  jax.config.update("jax_enable_x64", bool(env.get("x64", False)))
  return jax


_MAPS_LIMIT = 20000


def _release_compiled_code():
  """Every compiled XLA CPU program keeps several memory mappings; a worker that compiles thousands of
  configurations runs into vm.max_map_count (65530) and LLVM aborts ("Unable to allocate section memory").
  Dropping jax's compilation caches releases them; later calls simply recompile."""
  try:
    with open("/proc/self/maps") as f:
      n = sum(1 for _ in f)
  except OSError:
    return
  if n > _MAPS_LIMIT and "jax" in sys.modules:
    import gc
    import jax
    jax.clear_caches()
    gc.collect()


class Collector:
  """Runs check(case), never lets a failure escape, buckets failures."""

  def __init__(self, mod, budget_s, max_samples=6, trace_path=None):
    self.mod = mod
    self.trace_path = trace_path      # last case handed to check(): lets the parent name a case that hangs
    self.t0 = time.time()
    self.budget_s = budget_s
    self.evaluations = 0
    self.sub = 0
    self.skipped_budget = 0
    self.ambiguous = 0
    self.nontrivial_keys = set()
    self.all_keys = set()
    self.classes = {}
    self.metrics = {}
    self.samples = []
    self.max_samples = max_samples
    self.buckets = {}      # bucket -> dict(clause, detail, case, n)
    self.outcome = {}      # case hash -> bucket or None  (for the shrink re-run)
    self.harness_errors = []

  def over_budget(self):
    return (time.time() - self.t0) > self.budget_s

  def classify_exception(self, exc, tb):
    from vp import core
    if isinstance(exc, core.Violation):
      return exc.clause, exc.detail, f"V:{exc.clause}"
    # An exception escaping check() that is not a Violation is a harness error
    # unless the module says how to interpret it.
    interp = getattr(self.mod, "interpret_exception", None)
    if interp is not None:
      res = interp(exc, tb)
      if res is not None:
        clause, detail = res
        frame = core.innermost_repo_frame(tb) or core.innermost_frame(tb)
        return clause, detail, f"X:{clause}:{type(exc).__name__}:{frame}"
    return None, None, None

  def run_one(self, case, record=True):
    """Returns bucket name if the case fails, else None."""
    from vp import core
    h = core.case_hash(case)
    if h in self.outcome:
      return self.outcome[h]
    if self.over_budget():
      self.skipped_budget += 1
      return None
    bucket = None
    _release_compiled_code()
    if self.trace_path:
      try:
        with open(self.trace_path, "w") as f:
          f.write(core.canon(case))
      except OSError:
        pass
    try:
      res = self.mod.check(case)
      if record:
        self.evaluations += 1
        self.sub += int(res.get("sub", 1))
        key = res.get("key") or h
        if res.get("ambiguous"):
          self.ambiguous += 1
        else:
          self.all_keys.add(key)
          if res.get("nontrivial"):
            self.nontrivial_keys.add(key)
            if len(self.samples) < self.max_samples:
              self.samples.append(case)
        for c in res.get("classes", []):
          self.classes[c] = self.classes.get(c, 0) + 1
        for k, v in res.get("metrics", {}).items():
          if v is None:
            continue
          if k not in self.metrics or v > self.metrics[k]:
            self.metrics[k] = float(v)
    except Exception as exc:  # pylint: disable=broad-except
      tb = sys.exc_info()[2]
      clause, detail, bucket = self.classify_exception(exc, tb)
      if bucket is None:
        self.harness_errors.append({
            "case": case,
            "error": "".join(traceback.format_exception(type(exc), exc, tb))[-4000:],
        })
        bucket = None
      else:
        if record:
          self.evaluations += 1
        b = self.buckets.setdefault(
            bucket, {"clause": clause, "detail": detail, "case": case, "n": 0,
                     "data": getattr(exc, "data", {})})
        b["n"] += 1
        if len(core.canon(case)) < len(core.canon(b["case"])):
          b.update(case=case, detail=detail, data=getattr(exc, "data", {}))
    self.outcome[h] = bucket
    return bucket


class _ShrinkFail(Exception):
  pass


def _make_shrink_body(col, bname, tshrink, shrink_budget, best):
  from vp import core  # pylint: disable=g-import-not-at-top

  def body(case):
    h = core.case_hash(case)
    if h not in col.outcome and time.time() - tshrink > shrink_budget:
      return
    saved = col.budget_s
    col.budget_s = float("inf")  # the exploration budget does not apply here
    try:
      b = col.run_one(case, record=False)
    finally:
      col.budget_s = saved
    if b == bname:
      if len(core.canon(case)) <= len(core.canon(best["case"])):
        best["case"] = case
      raise _ShrinkFail()

  return body


def run_task(task):
  from vp import core  # pylint: disable=g-import-not-at-top
  import hypothesis  # pylint: disable=g-import-not-at-top
  from hypothesis import HealthCheck, Phase, given, settings  # pylint: disable=g-import-not-at-top

  mod = importlib.import_module(f"vp.props.{task['module']}")
  env_spec = dict(getattr(mod, "ENV", {}))
  env_spec.update(task.get("shard", {}).get("env", {}))
  _setup_jax(env_spec)
  if hasattr(mod, "worker_init"):
    mod.worker_init(task)
  shard = task["shard"]
  col = Collector(mod, task["budget_s"],
                  trace_path=task.get("trace_path") if getattr(mod, "TRACE_CASES", False) else None)
  t0 = time.time()
  exhaustive = False
  hyp_seed = task["seed"]

  if task.get("replay_cases") is not None:
    for case in task["replay_cases"]:
      col.run_one(case)
  elif shard.get("exhaustive"):
    exhaustive = True
    part, parts = task["part"], task["parts"]
    for i, case in enumerate(mod.enumerate_cases(shard)):
      if i % parts != part:
        continue
      col.run_one(case)
      if col.over_budget():
        exhaustive = False
        break
  else:
    strat = mod.strategy(shard)
    n = task["examples"]
    common = dict(database=None, deadline=None, derandomize=False,
                  report_multiple_bugs=False,
                  suppress_health_check=list(HealthCheck))

    @hypothesis.seed(hyp_seed)
    @settings(max_examples=n, phases=[Phase.generate], **common)
    @given(strat)
    def explore(case):
      col.run_one(case)

    try:
      explore()
    except hypothesis.errors.HypothesisException as e:  # generator problem
      col.harness_errors.append({"case": None, "error": f"hypothesis: {e!r}"})

    # Shrink every bucket separately: re-run the same seeded generation (cached
    # outcomes make it free up to the first failure of that bucket), raise on
    # that bucket only and let Hypothesis shrink.
    shrink_budget = task.get("shrink_s", 60)
    shrink_t0 = time.time()
    for bname in list(col.buckets):
      if time.time() - shrink_t0 > 2.5 * shrink_budget:
        break          # keep the smallest case found so far for the remaining buckets
      tshrink = time.time()
      best = {"case": col.buckets[bname]["case"]}

      body = _make_shrink_body(col, bname, tshrink, shrink_budget, best)

      shrinker = hypothesis.seed(hyp_seed)(
          settings(max_examples=n, phases=[Phase.generate, Phase.shrink],
                   **common)(given(strat)(body)))
      try:
        shrinker()
      except _ShrinkFail:
        pass
      except Exception as e:  # pylint: disable=broad-except
        col.harness_errors.append({"case": None, "error": f"shrink: {e!r}"})
      # Re-evaluate the best case to record its detail text.
      col.outcome.pop(core.case_hash(best["case"]), None)
      saved = col.budget_s
      col.budget_s = float("inf")
      try:
        try:
          mod.check(best["case"])
        except Exception as exc:  # pylint: disable=broad-except
          clause, detail, b2 = col.classify_exception(exc, sys.exc_info()[2])
          if b2 == bname:
            col.buckets[bname].update(case=best["case"], detail=detail,
                                      data=getattr(exc, "data", {}))
      finally:
        col.budget_s = saved

  return {
      "task": {k: v for k, v in task.items() if k != "replay_cases"},
      "evaluations": col.evaluations,
      "sub": col.sub,
      "skipped_budget": col.skipped_budget,
      "ambiguous": col.ambiguous,
      "nontrivial_keys": sorted(col.nontrivial_keys),
      "n_distinct": len(col.all_keys),
      "classes": col.classes,
      "metrics": col.metrics,
      "samples": col.samples,
      "buckets": col.buckets,
      "harness_errors": col.harness_errors[:5],
      "n_harness_errors": len(col.harness_errors),
      "exhaustive_complete": exhaustive,
      "wall_s": time.time() - t0,
  }


def main():
  task_path, out_path = sys.argv[1], sys.argv[2]
  with open(task_path) as f:
    task = json.load(f)
  # The library prints at trace time (tearfree); keep the worker's stdout clean.
  devnull = os.open(os.devnull, os.O_WRONLY)
  os.dup2(devnull, 1)
  random.seed(0)
  try:
    res = run_task(task)
  except BaseException as e:  # pylint: disable=broad-except
    res = {"fatal": "".join(traceback.format_exception(type(e), e, e.__traceback__))[-6000:],
           "task": {k: v for k, v in task.items() if k != "replay_cases"}}
  from vp import core  # pylint: disable=g-import-not-at-top
  with open(out_path, "w") as f:
    f.write(json.dumps(res, default=core._json_default))  # pylint: disable=protected-access


if __name__ == "__main__":
  main()

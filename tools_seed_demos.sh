#!/bin/bash
# Dev helper: for every seeded change, in a scratch worktree of /repo HEAD: the demonstration passes on the clean
# tree and fails with the change applied (guards against a patch that still applies but lands somewhere else after
# later fix commits moved the code). usage: tools_seed_demos.sh [parallelism] ; prints one line per seed.
P=${1:-6}
one() {
  s=$1; S=/verif/seeded/$s; WT=/tmp/wt_demo_$s
  git -C /repo worktree remove --force $WT >/dev/null 2>&1
  git -C /repo worktree add -q $WT HEAD || { echo "$s worktree-failed"; return; }
  cd $WT
  PYTHONPATH=$WT JAX_PLATFORMS=cpu timeout 1200 /venv/bin/python $S/demo.py >/dev/null 2>&1; a=$?
  if git apply $S/patch.diff 2>/dev/null; then
    PYTHONPATH=$WT JAX_PLATFORMS=cpu timeout 1200 /venv/bin/python $S/demo.py >/dev/null 2>&1; b=$?
  else b=apply-failed; fi
  cd /; git -C /repo worktree remove --force $WT
  echo "$s clean=$a changed=$b"
}
export -f one
ls /verif/seeded | xargs -P $P -I{} bash -c 'one {}'

#!/bin/bash
# Dev helper: confirm a seeded change in a scratch worktree: demo passes on clean tree, fails with the patch, suite still 714/3.
# usage: tools_seed_verify.sh <seed-dir-name> ; writes seeded/<name>/verify.log
set -u
S=/verif/seeded/$1
WT=/tmp/wt_verify_$1
git -C /repo worktree remove --force $WT 2>/dev/null
git -C /repo worktree add -q $WT HEAD
cd $WT
{
echo "HEAD $(git -C /repo rev-parse --short HEAD)"
echo "--- demo on clean tree"; PYTHONPATH=$WT JAX_PLATFORMS=cpu timeout 900 /venv/bin/python $S/demo.py 2>&1 | tail -3; echo "exit=${PIPESTATUS[0]}"
git apply $S/patch.diff && echo "--- patch applied"
echo "--- demo with change"; PYTHONPATH=$WT JAX_PLATFORMS=cpu timeout 900 /venv/bin/python $S/demo.py 2>&1 | tail -3; echo "exit=${PIPESTATUS[0]}"
echo "--- suite with change"; PYTHONPATH=$WT JAX_PLATFORMS=cpu /venv/bin/python -m pytest -q -p no:cacheprovider --timeout=900 --continue-on-collection-errors -n ${2:-6} 2>&1 | grep -E "^(FAILED|ERROR)|passed|failed" | sort | uniq
} > $S/verify.log 2>&1
cd /; git -C /repo worktree remove --force $WT
tail -12 $S/verify.log

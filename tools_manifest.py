"""Dev helper: regenerate MANIFEST.json from the table below (python tools_manifest.py)."""
import json
import os

HERE = os.path.dirname(os.path.abspath(__file__))

CHECKS = {
    "C11": dict(
        category="exploration",
        technique="property-based testing (Hypothesis structured + raw float32 generators) against a NumPy float64 half-bucket oracle; idempotence round trip",
        text=("Generated-input search: ~2e4 (quick) / ~6e5 (thorough) float32 tensors per run over all binary exponents, column kinds, "
              "int8/int16/bfloat16/float32, extract_diagonal, eager and jit; every case is compared with an independent float64 oracle "
              "(half bucket per column, stored range, zeros, diagonal, bucket size, re-quantisation idempotence); an optimizer-state driver "
              "(pmap + memory reduction) checks that stored integers never wrap and that carried quantised state is bit-identical "
              "between refreshes. No absence proof."),
        note="Trusted: NumPy float64 arithmetic; flush-to-zero float model for columns below N*2^-126 (stated in evidence.assumptions).",
        design="DESIGN.md section 3, C11"),
    "C17": dict(
        category="exploration",
        technique="property-based testing (Hypothesis generated layer sets / score vectors / scoring rules) against a validity predicate (integer ranks in 1..dim, per-group budget, inputs untouched)",
        text=("Generated-input search over synthetic in-memory optimizer states: ~1.6e4 (quick) / ~1.4e5 (thorough) layer sets with shared "
              "dimension groups, scale-disparate / tied / zero scores, all five scoring rules, running average, base rank below/equal/above "
              "the dims. The oracle is the budget predicate of the property itself, summed independently. No absence proof."),
        note="Trusted: the harness's construction of the states dict in the layout of the recorded checkpoint (reallocation_test_data).",
        design="DESIGN.md section 3, C17"),
    "C12": dict(
        category="exploration",
        technique="property-based testing of SM3 over generated gradient histories against an exact float64 per-entry accumulator and the SM3-II recursion (NumPy)",
        text=("Generated-input search over (shape tree, beta1, beta2, weight decay, normalisation, epsilon, lr schedule, history): after every "
              "step the cover inequality, monotonicity at beta2=1, the step-size bound against diagonal AdaGrad/RMSProp, rank-1 exactness "
              "and the SM3-II recursion are checked in float64. ~2.5e3 histories / 1.4e4 steps quick. No absence proof."),
        note="Trusted: NumPy float64 reference; jax_enable_x64 run of the real optimizer (float64 accumulators).",
        design="DESIGN.md section 3, C12"),
    "C16": dict(
        category="exploration",
        technique="property-based testing of the OCO init/update pairs over generated gradient sequences against closed forms, the FD bracket on an exact covariance, and exact full-matrix AdaGrad (NumPy float64)",
        text=("Generated-input search over (algorithm, shape, sketch size, delta, lr, gradient sequence): OGD/AdaGrad closed forms, last "
              "sketch row zero, orthonormal directions, two-sided FD bracket against the exact sum of scaled outer products with the "
              "escaped mass recomputed independently, alpha bookkeeping, and S-AdaGrad == full-matrix AdaGrad on lossless histories "
              "(delta down to 1e-10, gradient scales down to 1e-6); a second driver runs train.run_dataset on synthetic datasets with a "
              "linear loss and compares every recorded observation with the closed forms. ~5.5e3 sequences / 4e4 steps quick."),
        note="Trusted: NumPy float64 linear algebra (svd/eigh); x64 run of the real functions, eagerly and under jit, on copies of the state dict.",
        design="DESIGN.md section 3, C16"),
    "C01": dict(
        category="exploration",
        technique="property-based testing of matrix_inverse_pth_root (Newton / eigh / LOBPCG-deflated) on generated PSD matrices against a NumPy float64 residual oracle with ridge reconstruction and conditioning-scaled slack",
        text=("Generated-input search over PSD matrices with drawn size, rank, spectrum shape, regularised condition number, scale, padding, "
              "exponent, ridge, ridge mode and routine (~1.3e4 roots quick, ~2e5 thorough): finiteness, symmetry, exact zero padding, "
              "all-padding convention, residual of X^p(A+dI) against the reported error plus K*n*p*u*kappa, eigenvalue estimate never above "
              "lambda_max, exact 1x1 closed form. The slack constant is calibrated and its worst observed ratio is reported. No absence proof."),
        note="Trusted: NumPy float64 eigvalsh/matrix_power; ridge reconstructed from the routine's own metrics (max_eigen_value, total_retries).",
        design="DESIGN.md section 3, C01"),
    "C06": dict(
        category="exploration",
        technique="exhaustive small-scope enumeration (itertools.product over shapes x options, 16 processes) plus Hypothesis-drawn large irregular shapes, checked on index-valued tensors against NumPy slicing / reshape oracles",
        text=("Complete enumeration within the stated bounds of merge_small_dims, BlockPartitioner, Preconditioner bookkeeping + statistics + "
              "identity preconditioning, tearfree _blockify/_deblockify and the reshaper merge/unmerge pair (~5.9e4 cases quick), on arange "
              "tensors so any permutation, duplication or loss shows; evidence sets exhaustive=true when every enumerated case ran. "
              "Beyond the bound only sampled (Hypothesis large shapes)."),
        note="Trusted: NumPy slicing/reshape/tensordot as the reference for blocks, Gram matrices and padding.",
        design="DESIGN.md section 3, C06"),
    "C10": dict(
        category="exploration",
        technique="property-based testing of the packed low-rank layout, its application path and _low_rank_root against dense NumPy float64 references (round trip, dense contraction, eigh-based root with spectral gap by construction)",
        text=("Generated-input search (~5e3 cases quick): pack/unpack mutual inverses incl. slot disjointness with sentinels, "
              "Preconditioner.preconditioned_grad with packed preconditioners == contraction with c(I-VV')+V diag(e) V' on every axis and "
              "block (has_zeros -> unchanged), and _low_rank_root == NumPy eigh reference with the non-retained root values replaced by "
              "their mean over the unpadded dimension, for both signs of the rank, paddings, exponents, ridge modes. No absence proof."),
        note="Trusted: NumPy float64 eigh/tensordot; tolerances derived from eigen-gap and root conditioning (stated in evidence.assumptions).",
        design="DESIGN.md section 3, C10"),
    "C09": dict(
        category="exploration",
        technique="property-based testing of the three frequent-directions implementations over generated gradient histories against an exact float64 covariance recursion (PSD bracket, escaped-mass recurrence, zero-gradient law, lossless tracking, inverse roots)",
        text=("Generated-input search over histories (full / low-rank subspace / zero / repeat / scaled steps), sketch rank, decay, tensor "
              "rank and axis, padding and ridge placement, through four drivers: DS _fd_update_root iterated directly (float64), the "
              "sketches inside distributed_shampoo(frequent_directions=True) state, Tearfree Sketchy's public update (float32) and OCO "
              "S-AdaGrad. After every step the sketch is compared with the exact covariance (two-sided PSD bracket, t_new = b t_old + r with "
              "r recomputed by NumPy, deflated spectrum, orthonormal-or-zero directions, stored inverse roots). ~2.6e3 histories / 1.6e4 "
              "steps quick. No absence proof."),
        note="Trusted: NumPy float64 eigvalsh/svd; the ridge-placement model per implementation stated in evidence.assumptions. One known finding (KF-C09-1) is reported, its axis class excluded and counted.",
        design="DESIGN.md section 3, C09"),
    "C07": dict(
        category="exploration",
        technique="property-based testing over generated option records x parameter trees x update counts: every accepted configuration is traced with jax.eval_shape (all Python-level branches/asserts run) and a subset executed under jit + lax.scan / pmap; layout oracle = tree structure + leaf shapes/dtypes equality; exception-classification oracle",
        text=("Generated-input search over the widest option space of distributed_shampoo (replicated, pmap, sharded), sm3 and tearfree x trees "
              "with ranks 0-4 and unit dims x 1-3 updates (~2.8e3 configurations quick): constructor-accepted configurations must run or raise "
              "an explicit rejection; the update tree equals the parameters' layout; the state layout after k updates equals the initial one "
              "(also enforced by a real lax.scan carry on the executed subset); in sharded mode init state, declared shapes/dtypes and "
              "partition specs describe one tree. Failures are bucketed per root cause (innermost repository frame). No absence proof."),
        note="Trusted: the exception policy stated in evidence.assumptions (what counts as an explicit rejection); jax.eval_shape executes the same Python as a real trace. Domain restrictions (documented in DESIGN.md): LOBPCG only with max statistic size > 5k, sharded mode with a non-empty tree and block_size > 0.",
        design="DESIGN.md section 3, C07"),
    "C03": dict(
        category="fault_enumeration",
        technique="fault injection by generated schedules (Hypothesis) plus exhaustive enumeration of all schedules over 5 principal fault tags, with the acceptance-gate invariant evaluated bitwise after every update in replicated / quantised-pmap / sharded modes",
        text=("Per compiled configuration (mode, root routine, failure threshold incl. 0, matrix epsilon incl. 0, intervals, graft, x64 on/off) "
              "several fault schedules of up to 8 steps inject NaN / Inf / zero / huge / tiny / rank-1 / constant gradients at arbitrary step "
              "subsets; all 5^3 (thorough 5^4) schedules over the principal tags are enumerated per mode. After every update each stored "
              "preconditioner (all QuantizedValue components, every slice of the sharded array incl. padding) must be bit-identical to before "
              "or replaced on a refresh step with a finite error strictly below the threshold; all must be finite; updates must be finite for "
              "moderate gradients. ~400 configurations / 1e4 steps quick."),
        note="Trusted: the error figure read from training_metrics of the state returned by the same update. Padding slices of the sharded array are checked for finiteness only.",
        design="DESIGN.md section 3, C03"),
    "C04": dict(
        category="exploration",
        technique="exhaustive grid enumeration of (statistics interval, preconditioner interval, start step) plus Hypothesis-drawn scheduled intervals, checked step by step against an explicit schedule automaton by bitwise state comparison and twin-run differential oracles",
        text=("Complete (s, p, start) grid {1..4}^2 x {0..6} for replicated Distributed Shampoo, sub-grids for the sharded variant, Tearfree "
              "Shampoo and Sketchy, and learning-rate-scheduled preconditioner intervals over 45 steps: statistics/preconditioner/metric "
              "leaves bit-identical on non-refresh steps, changed on scheduled statistics steps, count +1 per update, refresh reflects current "
              "statistics (interval-1 twin), warm-up equals the graft-only twin before the start step and the start-0 twin from it on, "
              "closed-form Nesterov momentum SGD before the start step."),
        note="Trusted: the docstring formula for the scheduled interval; twin comparisons at rtol 1e-5 (differently compiled programs).",
        design="DESIGN.md section 3, C04"),
    "C05": dict(
        category="exploration",
        technique="property-based differential testing: twin runs of the real optimizer with the grafting type and with grafting NONE give the direction, float64 closed forms of the grafting optimizers give the norm, over generated configurations / trees / histories",
        text=("Generated-input search over graft type x preconditioner representation (full, compressed +-r, frequent directions, "
              "int16-quantised pmap, Tearfree Shampoo, Tearfree Sketchy) x trees with excluded leaves x start step x histories with "
              "momentum and weight decay off (~330 configurations / 1.2e3 steps quick): before the start step and on excluded leaves the "
              "update equals the graft step elementwise; from the start step on its norm equals the graft step's norm and its direction "
              "the NONE twin's (cosine), zero direction gives zero update."),
        note="Trusted: NumPy closed forms of SGD/AdaGrad/RMSProp/normalised/sign steps; optax.adafactor for ADAFACTOR; the NONE twin shares statistics and preconditioners.",
        design="DESIGN.md section 3, C05"),
    "C02": dict(
        category="exploration",
        technique="property-based one-step conformance testing along generated histories against an independent float64 NumPy reference model of blocked Shampoo (written from the docs), plus an end-to-end float64 reference run",
        text=("Generated-input search over option records (graft, betas, nesterov, momentum form, weight decay/lr coupling and schedule, "
              "blocks, merging, preconditioner type, exponent override, start step, intervals, skip rules, Newton/eigh, ridge) x trees x "
              "histories, replicated and sharded (~350 configurations / 3e3 steps quick): count, statistics, preconditioners (against "
              "(S+dI)^(-1/e) with the ridge reconstructed from the reported metrics), graft accumulators, both momenta and the update are "
              "compared leaf by leaf with a reference step applied to the implementation's previous state, with float32 cancellation "
              "bounds computed per case; well-conditioned configurations are also compared end to end."),
        note="Trusted: vp/ref/ds_step.py (float64, no import of the repo). Tolerances stated in evidence.assumptions; steps whose grafting norm under/overflows float32 and roots without a positive-definite reference are counted and skipped.",
        design="DESIGN.md section 3, C02"),
    "C08": dict(
        category="exploration",
        technique="property-based differential (metamorphic) testing on the real code: a blocked tensor vs its blocks as separate parameters, and a parameter alone vs with generated companion parameters, over generated block layouts with independent per-block gradient scales",
        text=("Generated-input search over block layouts (1-2 blocked axes, ragged last block), per-block scales spanning up to 1e12, "
              "companions that change the global padding size, rank-3 layouts with a small axis between the blocked axes, options and "
              "histories, for Distributed Shampoo (replicated and sharded), tearfree shampoo.apply and the full tearfree chain (~330 "
              "layouts quick): with grafting NONE block slices equal the separate parameters' updates (2e-5) and the last block equals "
              "itself optimised entirely alone, with a grafting type slices are positively collinear; a parameter's update and state "
              "are unchanged by companions."),
        note="Trusted: nothing beyond the real code run twice; float64 roots under x64 keep the differential noise at 1e-7.",
        design="DESIGN.md section 3, C08"),
    "C13": dict(
        category="exploration",
        technique="property-based differential testing of the real optimizer across device counts (jax.pmap on forced host CPU devices, jit under device meshes) plus exhaustive enumeration of the batch/unbatch index map",
        text=("Generated trees/modes/histories are run on D in {1,2,3,4,5,7,8} devices (3 values per case; N mod D residues are "
              "classified in the evidence) in full, int16-quantised, compressed, frequent-directions and eigh modes; replicas must be "
              "byte-identical to each other and replica 0 equal to the single-device run; the sharded variant is compared across declared "
              "device counts on 1-device and D-device meshes; unbatch(batch(xs, D)) is enumerated for all N <= 32, D <= 8 and six element "
              "shapes (exhaustive)."),
        note="Trusted: forced host-platform devices (index/padding/gather logic, not a real backend's collectives). Tolerance 1e-6 (1e-4 in batched-eigh and int16 modes), stated in evidence.assumptions.",
        design="DESIGN.md section 3, C13"),
    "C14": dict(
        category="exploration",
        technique="property-based testing with every interruption point enumerated: generated optimizer configurations / trees / histories, state serialised with flax msgpack at each k in 0..T and restored into a freshly constructed optimizer, bytewise comparison with the uninterrupted run",
        text=("For Distributed Shampoo (full, int8/int16-quantised under pmap, compressed, frequent directions with gradient averaging), "
              "SM3, Tearfree Shampoo and Tearfree Sketchy, with intervals > 1, start steps inside the history and momentum on "
              "(~130 configurations quick, all k per configuration): to_bytes/from_bytes round trip is the identity on every leaf, the "
              "restored tree matches init()'s template of a fresh optimizer object, all subsequent updates and states are byte-identical "
              "to the uninterrupted run, and two independently constructed optimizers give identical runs."),
        note="Trusted: flax.serialization; restored NumPy leaves enter through the jit/pmap argument boundary (documented domain).",
        design="DESIGN.md section 3, C14"),
    "C15": dict(
        category="exploration",
        technique="property-based conformance testing of tearfree() against an independent float64 NumPy model of the documented composition (merge/pad, blocked Shampoo with per-block eigenvalue cut, graft, momentum, weight decay, lr) plus metamorphic twins on the real code (lr x2, pre-merged, hand-padded)",
        text=("Generated option records x trees x histories (~480 configurations quick). Shampoo runs in float64 (x64) and is compared end "
              "to end: block statistics (1e-8), roots (1e-6) and updates (1e-7) at every step, documented rejections (unit dims, >2 large "
              "dims) must occur exactly when the reference predicts them. Sketchy runs in float32: the direction is recomputed densely "
              "from its own sketch state (sketch laws are C09) and the graft/momentum/weight-decay/lr composition is compared at 2e-4 plus "
              "a computed cancellation bound. Doubling the learning rate must double the update exactly; merging and zero padding must "
              "not change delivered values and padding entries must stay exactly zero."),
        note="Trusted: the NumPy reference in vp/props/c15_tearfree.py (written from the docstrings), optax.adafactor for ADAFACTOR grafting.",
        design="DESIGN.md section 3, C15"),
}

NOT_YET = {}


def main():
  props = [json.loads(l) for l in open(os.path.join(HERE, "properties.jsonl"))]
  checks = []
  na = []
  for p in props:
    pid = p["id"]
    if pid in CHECKS:
      c = CHECKS[pid]
      checks.append({
          "property_id": pid,
          "quick_cmd": f"./check {pid} quick",
          "thorough_cmd": f"./check {pid} thorough",
          "evidence_file": f"evidence/{pid}.json",
          "replay_cmd_template": f"./check {pid} --replay {{path}}",
          "engine": "vp-pbt",
          "level_claimed": {"category": c["category"], "text": c["text"],
                            "design_ref": c["design"]},
          "level_note": c["note"],
          "technique": c["technique"],
      })
    else:
      na.append({"property_id": pid,
                 "reason": NOT_YET.get(pid, "check not built yet (work in progress; the technique applies, see DESIGN.md section 3)")})
  manifest = {
      "version": 1,
      "setup_cmd": "./setup.sh",
      "hooks": {
          "guard": "PRECONDITION_VERIF",
          "enable": "no source hooks are needed: every observation goes through public init/update, module-level functions and state pytrees; checks import precondition from /repo's working tree (PYTHONPATH=/repo)",
          "baseline_off_cmd": "cd /repo && /venv/bin/python -m pytest -ra -q -p no:cacheprovider --timeout=900 --continue-on-collection-errors",
          "source_commits": [],
          "add_only": True,
      },
      "engines": [{
          "name": "vp-pbt",
          "path": "vp/",
          "serves_properties": [c["property_id"] for c in checks],
          "kind_free_text": "Hypothesis-driven property-based testing / exhaustive small-scope enumeration with NumPy float64 reference models, differential and metamorphic oracles; 16 worker processes; bucketed failure collection + Hypothesis shrinking; replay corpus.",
      }],
      "checks": checks,
      "notes": "See DESIGN.md. Exit 0 = held, 1 = VIOLATION line, 2 = harness error. Known findings: known_findings.json.",
      "not_applicable": na,
  }
  with open(os.path.join(HERE, "MANIFEST.json"), "w") as f:
    json.dump(manifest, f, indent=1)
  print("checks:", [c["property_id"] for c in checks], "not yet:", [n["property_id"] for n in na])


if __name__ == "__main__":
  main()

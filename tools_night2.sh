#!/bin/bash
# Dev helper: thorough tiers at full scale, in the given order (default: riskiest first).
for id in ${@:-C08 C10 C02 C03 C01 C13 C15 C04 C05 C14 C07 C09 C06 C11 C12 C16 C17}; do
  out=$(./check $id thorough 2>&1); rc=$?
  echo "$id thorough rc=$rc $(echo "$out" | grep -E "^$id thorough" | cut -c1-170)"
  if [ $rc -ne 0 ]; then echo "$out" | grep -E "clause=|VIOLATION|HARNESS|Error" | cut -c1-400 | head -8; fi
done

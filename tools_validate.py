"""Dev helper (python3-vt): validate MANIFEST.json and evidence/*.json against the schemas."""
import glob, json, sys
import jsonschema
ok = True
m = json.load(open('/verif/MANIFEST.json'))
jsonschema.validate(m, json.load(open('/root/.vp/MANIFEST.schema.json')))
es = json.load(open('/root/.vp/EVIDENCE.schema.json'))
for c in m['checks']:
    p = '/verif/' + c['evidence_file'] if not c['evidence_file'].startswith('/') else c['evidence_file']
    try:
        e = json.load(open(p))
        jsonschema.validate(e, es)
        assert e['level'] == c['level_claimed']['category'], (e['level'], c['level_claimed']['category'])
        print('ok', c['property_id'], e['tier'], e['coverage']['evaluations'], e['coverage']['distinct_nontrivial'], e['wall_s'])
    except Exception as ex:
        ok = False
        print('BAD', c['property_id'], repr(ex)[:300])
ids = {c['property_id'] for c in m['checks']} | {n['property_id'] for n in m.get('not_applicable', [])}
props = [json.loads(l)['id'] for l in open('/verif/properties.jsonl')]
print('unaccounted:', [p for p in props if p not in ids])
sys.exit(0 if ok else 1)

#!/bin/bash
# Dev helper: smoke-test every thorough tier at a small scale (VERIF_SCALE) to validate shard definitions.
for id in C01 C02 C03 C04 C05 C06 C07 C08 C09 C10 C11 C12 C13 C14 C15 C16 C17; do
  out=$(VERIF_SCALE=${1:-0.03} VERIF_NPROC=${2:-6} ./check $id thorough 2>&1); rc=$?
  echo "$id thorough rc=$rc $(echo "$out" | grep -E "^$id thorough" | cut -c1-170)"
  if [ $rc -ne 0 ]; then echo "$out" | grep -E "clause=|VIOLATION|HARNESS|Error" | cut -c1-400 | head -8; fi
done

#!/bin/bash
# Offline setup: make sure hypothesis is importable from /venv (installed from the local wheelhouse if absent).
set -e
cd "$(dirname "$(readlink -f "$0")")"
if ! /venv/bin/python -c "import hypothesis" 2>/dev/null; then
  PIP_NO_INDEX=1 /venv/bin/pip install --no-index --find-links /opt/veriftools/wheels hypothesis
fi
/venv/bin/python -c "import hypothesis, jax, numpy; print('setup ok: hypothesis', hypothesis.__version__, 'jax', jax.__version__)"
mkdir -p evidence

#!/bin/bash
# Dev helper: run a property's check against a seeded change WITHOUT touching /repo: scratch worktree of /repo HEAD
# + the patch, VERIF_REPO=<worktree> (no evidence is written for such runs). usage: tools_seed_try.sh <patch> <ID> [tier]
P=$(readlink -f "$1"); ID=$2; TIER=${3:-quick}
WT=/tmp/wt_try_$$_$ID
git -C /repo worktree add -q $WT HEAD || exit 2
if git -C $WT apply "$P"; then
  cd /verif && VERIF_REPO=$WT ./check $ID $TIER 2>&1 | grep -E "^$ID $TIER|clause=|VIOLATION|HARNESS|KNOWN" | cut -c1-260
else echo "patch does not apply"; fi
git -C /repo worktree remove --force $WT
rm -rf /verif/violations/$ID
